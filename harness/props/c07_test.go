package props

import (
	"fmt"
	"net/url"
	"reflect"
	"sort"
	"strings"
	"testing"

	"github.com/mfcochauxlaberge/jsonapi"
	"pgregory.net/rapid"

	"verif/harness/gen"
	"verif/harness/oracle"
	"verif/harness/rec"
)

// C07 — URL parsing never panics and its result is consistent with the schema.

var urlSchemaOpts = gen.SchemaOpts{MinTypes: 1, MaxTypes: 3, MaxAttrs: 4, MaxRelEdges: 6, AllKindsChance: 0}

// parseAll runs the three parsing entry points on a raw URL and checks
// "no panic, exactly one of URL and error". It returns the URL of NewURLFromRaw.
func parseAll(schema *jsonapi.Schema, raw string) (u *jsonapi.URL, violation string) {
	var err error

	if p := oracle.Try(func() { u, err = jsonapi.NewURLFromRaw(schema, raw) }); p != nil {
		return nil, "NewURLFromRaw: " + p.String()
	}

	if (u == nil) == (err == nil) {
		return nil, fmt.Sprintf("NewURLFromRaw returned url=%v err=%v", u != nil, err)
	}

	// The same through the separate steps.
	pu, perr := url.Parse(raw)
	if perr != nil {
		return u, ""
	}

	var (
		su   jsonapi.SimpleURL
		serr error
	)

	if p := oracle.Try(func() { su, serr = jsonapi.NewSimpleURL(pu) }); p != nil {
		return nil, "NewSimpleURL: " + p.String()
	}

	if serr != nil {
		if u != nil {
			return nil, "NewSimpleURL fails where NewURLFromRaw succeeds"
		}

		return u, ""
	}

	var (
		u2   *jsonapi.URL
		err2 error
	)

	if p := oracle.Try(func() { u2, err2 = jsonapi.NewURL(schema, su) }); p != nil {
		return nil, "NewURL: " + p.String()
	}

	if (u2 == nil) == (err2 == nil) || (u2 == nil) != (u == nil) {
		return nil, fmt.Sprintf("NewURL returned url=%v err=%v, NewURLFromRaw url=%v", u2 != nil, err2, u != nil)
	}

	// NewParams directly, with the resource type the URL resolved to (or the first type).
	resType := ""
	if u != nil {
		resType = u.ResType
	}

	var (
		ps    *jsonapi.Params
		perr2 error
	)

	if p := oracle.Try(func() { ps, perr2 = jsonapi.NewParams(schema, su, resType) }); p != nil {
		return nil, "NewParams: " + p.String()
	}

	if (ps == nil) == (perr2 == nil) {
		return nil, fmt.Sprintf("NewParams returned params=%v err=%v", ps != nil, perr2)
	}

	return u, ""
}

func stripDash(rule string) string { return strings.TrimPrefix(rule, "-") }

// effective cuts a rule list after the first id and removes later repeats of a
// field: rules after id, and repeats, cannot change the order.
func effective(rules []string) []string {
	out := []string{}
	seen := map[string]bool{}

	for _, r := range rules {
		f := stripDash(r)
		if seen[f] {
			continue
		}

		seen[f] = true
		out = append(out, r)

		if f == "id" {
			break
		}
	}

	return out
}

// urlOracle checks a returned URL against the schema and the request description.
func urlOracle(req *gen.URLReq, u *jsonapi.URL) string {
	ss := req.SS
	frags := req.Frags()

	rt := ss.Type(u.ResType)
	if rt == nil {
		return fmt.Sprintf("resource type %q is not in the schema", u.ResType)
	}

	if !reflect.DeepEqual(u.Fragments, frags) {
		return fmt.Sprintf("fragments %q, the path has %q", u.Fragments, frags)
	}

	// Standard shapes: what the path means.
	first := ss.Type(frags[0])
	if first == nil {
		return fmt.Sprintf("URL accepted although its first fragment %q is not a type", frags[0])
	}

	switch len(frags) {
	case 1:
		if u.ResType != first.Name || !u.IsCol || u.ResID != "" {
			return fmt.Sprintf("collection URL parsed as type=%q col=%v id=%q", u.ResType, u.IsCol, u.ResID)
		}
	case 2:
		if u.ResType != first.Name || u.IsCol || u.ResID != frags[1] {
			return fmt.Sprintf("resource URL parsed as type=%q col=%v id=%q", u.ResType, u.IsCol, u.ResID)
		}
	case 3, 4:
		rel, ok := first.Rel(frags[len(frags)-1])
		if !ok {
			return fmt.Sprintf("URL accepted although %q is not a relationship of %q", frags[len(frags)-1], first.Name)
		}

		if len(frags) == 3 || frags[2] == "relationships" {
			if u.ResType != rel.ToType || u.IsCol == rel.ToOne || u.Rel != rel {
				return fmt.Sprintf("relationship URL parsed as type=%q col=%v rel=%s, want %s", u.ResType, u.IsCol, gen.RelString(u.Rel), gen.RelString(rel))
			}
		}
	}

	// Field selection.
	for _, tn := range gen.SortedKeys(u.Params.Fields) {
		ts := ss.Type(tn)
		if ts == nil {
			return fmt.Sprintf("field selection names %q which is not a schema type", tn)
		}

		list := u.Params.Fields[tn]
		all := map[string]bool{"id": true}

		for _, f := range ts.Fields() {
			all[f] = true
		}

		seen := map[string]bool{}

		for _, f := range list {
			if !all[f] {
				return fmt.Sprintf("fields[%s] lists %q which is not a field of the type", tn, f)
			}

			if seen[f] {
				return fmt.Sprintf("fields[%s] lists %q twice", tn, f)
			}

			seen[f] = true
		}

		// Requested valid names, else all fields. When the parameter is repeated
		// the property does not say which occurrence counts: any one is accepted.
		candidates := req.All("fields[" + tn + "]")
		if len(candidates) == 0 {
			candidates = []string{""}
		}

		matched := false
		wants := []string{}

		for _, v := range candidates {
			want := map[string]bool{}

			for _, it := range gen.CommaItems(v) {
				if all[it] {
					want[it] = true
				}
			}

			if len(want) == 0 {
				for _, f := range ts.Fields() {
					want[f] = true
				}
			}

			wants = append(wants, fmt.Sprint(keysOf(want)))

			if reflect.DeepEqual(seen, want) || (len(seen) == 0 && len(want) == 0) {
				matched = true
			}
		}

		if !matched {
			return fmt.Sprintf("fields[%s] = %q, want the set %v (requested %q)", tn, list, wants, req.All("fields["+tn+"]"))
		}
	}

	if _, ok := u.Params.Fields[u.ResType]; !ok {
		return fmt.Sprintf("no field selection entry for the resource type %q", u.ResType)
	}

	// Inclusion paths.
	requested := [][]string{}

	for _, v := range req.All("include") {
		for _, it := range gen.CommaItems(v) {
			requested = append(requested, strings.Split(it, "."))
		}
	}

	validPath := func(p []string) bool {
		cur := rt
		for _, n := range p {
			if cur == nil {
				return false
			}

			r, ok := cur.Rel(n)
			if !ok {
				return false
			}

			cur = ss.Type(r.ToType)
		}

		return true
	}

	got := [][]string{}

	for i, path := range u.Params.Include {
		if len(path) == 0 {
			return fmt.Sprintf("inclusion path #%d is empty", i)
		}

		names := []string{}
		cur := rt

		for _, rel := range path {
			if cur == nil {
				return fmt.Sprintf("inclusion path #%d leaves the schema", i)
			}

			want, ok := cur.Rel(rel.FromName)
			if !ok || want != rel {
				return fmt.Sprintf("inclusion path #%d: %s is not a relationship of %q (path so far %q)", i, gen.RelString(rel), cur.Name, names)
			}

			names = append(names, rel.FromName)
			cur = ss.Type(rel.ToType)
		}

		found := false

		for _, rp := range requested {
			if reflect.DeepEqual(rp, names) {
				found = true
			}
		}

		if !found {
			return fmt.Sprintf("inclusion path %q was not requested (requested %q)", names, requested)
		}

		got = append(got, names)
	}

	isPrefix := func(a, b []string) bool { // a is a proper segment prefix of b
		if len(a) >= len(b) {
			return false
		}

		return reflect.DeepEqual(a, b[:len(a)])
	}

	for _, rp := range requested {
		if !validPath(rp) {
			continue
		}

		extended := false

		for _, other := range requested {
			if isPrefix(rp, other) {
				extended = true
			}
		}

		present := false

		for _, g := range got {
			if reflect.DeepEqual(g, rp) || isPrefix(rp, g) {
				present = true
			}
		}

		if !present && !extended {
			return fmt.Sprintf("valid requested inclusion path %q is missing (result %q, requested %q)", rp, got, requested)
		}
	}

	// Sorting rules of collection URLs.
	if u.IsCol {
		attrs := map[string]bool{"id": true}
		for _, a := range rt.Attrs {
			attrs[a.Name] = true
		}

		hasID := false

		for _, rule := range u.Params.SortingRules {
			f := stripDash(rule)
			if !attrs[f] {
				return fmt.Sprintf("sorting rule %q is neither id nor an attribute of %q", rule, rt.Name)
			}

			if f == "id" {
				hasID = true
			}
		}

		if !hasID {
			return fmt.Sprintf("sorting rules %q do not contain id", u.Params.SortingRules)
		}

		callerValid := []string{}

		for _, v := range req.All("sort") {
			for _, rule := range gen.CommaItems(v) {
				if attrs[stripDash(rule)] && stripDash(rule) != "" {
					callerValid = append(callerValid, rule)
				}
			}
		}

		want := effective(callerValid)
		have := effective(u.Params.SortingRules)

		if len(have) < len(want) || !reflect.DeepEqual(have[:len(want)], want) {
			return fmt.Sprintf("sorting rules %q (effective %q) do not start with the caller's valid rules %q", u.Params.SortingRules, have, want)
		}
	}

	return ""
}

func keysOf(m map[string]bool) []string {
	ks := []string{}
	for k := range m {
		ks = append(ks, k)
	}

	sort.Strings(ks)

	return ks
}

func urlNontrivial(req *gen.URLReq) (bool, []string) {
	labels := []string{"shape:" + req.Shape}
	interesting := false
	names := map[string]int{}

	for _, p := range req.Params {
		names[p.Name]++

		if p.Value == "" {
			interesting = true
			labels = append(labels, "empty-value")
		}
	}

	for n, c := range names {
		if c > 1 {
			interesting = true
			labels = append(labels, "repeated-param")
		}

		switch {
		case strings.HasPrefix(n, "fields["):
			labels = append(labels, "param:fields")
		case strings.HasPrefix(n, "page["):
			labels = append(labels, "param:page")
		default:
			labels = append(labels, "param:"+n)
		}
	}

	incs := []string{}

	for _, v := range req.All("include") {
		incs = append(incs, gen.CommaItems(v)...)
	}

	for i, a := range incs {
		if strings.Count(a, ".") >= 1 {
			interesting = true
			labels = append(labels, "include-depth>=2")
		}

		for j, b := range incs {
			if i != j && a != b && strings.HasPrefix(b, a) {
				interesting = true
				labels = append(labels, "include-string-prefix")
			}
		}
	}

	rules := []string{}
	for _, v := range req.All("sort") {
		rules = append(rules, gen.CommaItems(v)...)
	}

	seen := map[string]bool{}

	for _, rule := range rules {
		if seen[stripDash(rule)] {
			interesting = true
			labels = append(labels, "repeated-rule")
		}

		seen[stripDash(rule)] = true
	}

	for _, p := range req.Params {
		for _, it := range gen.CommaItems(p.Value) {
			if it == "nope" || it == "-nope" {
				interesting = true
				labels = append(labels, "unknown-name")
			}
		}
	}

	return len(req.Params) >= 2 && interesting, labels
}

func TestC07Parse(t *testing.T) {
	r := rec.For("C07Parse")

	rapid.Check(t, prop(r, func(t *rapid.T) {
		ss := gen.CoherentSchema(t, urlSchemaOpts)
		req := gen.URLRequest(t, ss, gen.URLOpts{})
		raw := req.Render(t, "render")

		if rapid.IntRange(0, 9).Draw(t, "absolute") == 0 {
			raw = "https://example.com" + raw
		}

		u, violation := parseAll(ss.Schema, raw)
		if violation != "" {
			t.Fatalf("C07 violated: %s\nschema: %s\nrequest: %s\nraw: %s", violation, ss, req, raw)
		}

		nontrivial, labels := urlNontrivial(req)

		if u == nil {
			r.Case(fmt.Sprintf("%s\n%s\nraw=%s", ss, req, raw), nontrivial, append(labels, "rejected")...)
			return
		}

		if msg := urlOracle(req, u); msg != "" {
			t.Fatalf("C07 violated: %s\nschema: %s\nrequest: %s\nraw: %s", msg, ss, req, raw)
		}

		// The URL a caller holds is still that URL after other URLs were
		// parsed (one case in three parses two more before looking again).
		if rapid.IntRange(0, 2).Draw(t, "held") == 0 {
			for i := 0; i < 2; i++ {
				other := gen.URLRequest(t, ss, gen.URLOpts{}).Render(t, "render-other")
				if _, v := parseAll(ss.Schema, other); v != "" {
					t.Fatalf("C07 violated: %s\nschema: %s\nraw: %s", v, ss, other)
				}
			}

			if msg := urlOracle(req, u); msg != "" {
				t.Fatalf("C07 violated: after two other URLs were parsed, the URL parsed first reads differently: %s\nschema: %s\nrequest: %s\nraw: %s", msg, ss, req, raw)
			}
		}

		r.Case(fmt.Sprintf("%s\n%s\nraw=%s", ss, req, raw), nontrivial, append(labels, "accepted")...)
	}))
}

// TestC07Raw: arbitrary strings and escape mutations of rendered URLs, also on
// incoherent schemas; only panic freedom and "URL xor error" are checked.
func TestC07Raw(t *testing.T) {
	r := rec.For("C07Raw")

	rapid.Check(t, prop(r, func(t *rapid.T) {
		var ss *gen.SchemaSpec
		if rapid.Bool().Draw(t, "incoherent") {
			ss = gen.IncoherentSchema(t)
		} else {
			ss = gen.CoherentSchema(t, urlSchemaOpts)
		}

		var raw string

		mode := rapid.IntRange(0, 2).Draw(t, "mode")

		switch mode {
		case 0:
			raw = gen.HostileString(t, "raw")
		default:
			req := gen.URLRequest(t, ss, gen.URLOpts{})
			raw = req.Render(t, "render")
			n := rapid.IntRange(1, 3).Draw(t, "nmut")

			for i := 0; i < n; i++ {
				pos := rapid.IntRange(0, len(raw)).Draw(t, "pos")
				ins := rapid.SampledFrom([]string{"%", "%zz", "%2", ";", "#", "?", "//", "&", "=", "[", "]", "&&", "%00", "\x00", "+", ",,", ".", "-", "{", "filter=", "sort=-,", "include=.."}).Draw(t, "ins")

				if rapid.Bool().Draw(t, "cut") && pos < len(raw) {
					raw = raw[:pos] + ins + raw[pos+1:]
				} else {
					raw = raw[:pos] + ins + raw[pos:]
				}
			}
		}

		u, violation := parseAll(ss.Schema, raw)
		if violation != "" {
			t.Fatalf("C07 violated: %s\nschema: %s\nraw: %q", violation, ss, raw)
		}

		lab := "rejected"
		if u != nil {
			lab = "accepted"

			if ss.Schema.GetType(u.ResType).Name == "" && len(ss.Schema.Check()) == 0 {
				t.Fatalf("C07 violated: resource type %q is not in the schema\nschema: %s\nraw: %q", u.ResType, ss, raw)
			}
		}

		r.Case(fmt.Sprintf("%s raw=%q", ss, raw), strings.Contains(raw, "?") && strings.Contains(raw, "="), lab, fmt.Sprintf("mode:%d", mode))
	}))
}

func TestC07Regress(t *testing.T) {
	ss := gen.BuildSchema([]gen.TypeSpec{
		{Name: "t", Attrs: []jsonapi.Attr{{Name: "n", Type: jsonapi.AttrTypeInt}}, Rels: []jsonapi.Rel{
			{FromType: "t", FromName: "r", ToType: "t", ToOne: true},
			{FromType: "t", FromName: "rr", ToType: "u"},
		}},
		{Name: "u", Rels: []jsonapi.Rel{{FromType: "u", FromName: "t", ToType: "t", ToOne: true}}},
	})

	check := func(t *testing.T, req *gen.URLReq, raw string) {
		u, violation := parseAll(ss.Schema, raw)
		if violation != "" {
			t.Fatalf("C07 violated: %s\nraw: %s", violation, raw)
		}

		if u != nil {
			if msg := urlOracle(req, u); msg != "" {
				t.Fatalf("C07 violated: %s\nraw: %s", msg, raw)
			}
		}
	}

	mk := func(path []string, params ...string) *gen.URLReq {
		req := &gen.URLReq{SS: ss, PathSegs: path}
		for i := 0; i+1 < len(params); i += 2 {
			req.Params = append(req.Params, gen.QParam{Name: params[i], Value: params[i+1]})
		}

		return req
	}

	t.Run("empty-filter", func(t *testing.T) { check(t, mk([]string{"t"}, "filter", ""), "/t?filter=") })
	t.Run("repeated-sort-rule", func(t *testing.T) {
		check(t, mk([]string{"t"}, "sort", "n,n,n"), "/t?sort=n,n,n")
		check(t, mk([]string{"t"}, "sort", "n,-n,n,n"), "/t?sort=n,-n,n,n")
	})
	t.Run("two-unknown-includes", func(t *testing.T) { check(t, mk([]string{"t"}, "include", "x,y"), "/t?include=x,y") })
	t.Run("three-unknown-includes", func(t *testing.T) { check(t, mk([]string{"t"}, "include", "x,y,z"), "/t?include=x,y,z") })
	t.Run("prefix-named-includes", func(t *testing.T) { check(t, mk([]string{"t"}, "include", "r,rr"), "/t?include=r,rr") })
	t.Run("nested-includes", func(t *testing.T) {
		check(t, mk([]string{"t"}, "include", "rr.t.r,rr,rr.t"), "/t?include=rr.t.r,rr,rr.t")
		check(t, mk([]string{"t"}, "include", "rr.nope,rr"), "/t?include=rr.nope,rr")
	})
	t.Run("sort-dash-only", func(t *testing.T) { check(t, mk([]string{"t"}, "sort", "-"), "/t?sort=-") })
}

// FuzzC07 is the native, coverage-guided target over raw URL strings against a
// fixed schema; it applies C07's validity predicate and, to every accepted URL,
// C08's fixed-point oracle.
func FuzzC07(f *testing.F) {
	ss := gen.BuildSchema([]gen.TypeSpec{
		{Name: "t", Attrs: []jsonapi.Attr{{Name: "n", Type: jsonapi.AttrTypeInt}, {Name: "s", Type: jsonapi.AttrTypeString, Nullable: true}}, Rels: []jsonapi.Rel{
			{FromType: "t", FromName: "r", ToType: "t", ToOne: true},
			{FromType: "t", FromName: "rr", ToType: "u", ToName: "t", FromOne: true},
		}},
		{Name: "u", Struct: true, Attrs: []jsonapi.Attr{{Name: "b", Type: jsonapi.AttrTypeBool}}, Rels: []jsonapi.Rel{{FromType: "u", FromName: "t", ToType: "t", ToName: "rr", ToOne: true}}},
	})

	for _, s := range []string{
		"/t", "/t/1", "/t/1/r", "/t/1/relationships/rr", "/u?fields[u]=b,t&sort=-b,id&page[size]=10&page[number]=2",
		"/t?include=rr.t.r,r&fields[t]=n&fields[u]=b", `/t?filter={"f":"n","o":"=","v":1}`, "/t?filter=label", "/t?filter=",
		`/t?filter={"o":"and","v":[{"o":"or","v":[]},{"f":"s","o":"in","v":["a","b"]}]}`, "/t?sort=n,n,n", "/t?include=x,y", "/t?include=r,rr",
		"/t/a%20b%3F?page[foo]=bar%26", "https://example.com/t?sort=-&fields[t]=", "/t?fields[nope]=x", "%zz", "/t?a;b",
	} {
		f.Add(s)
	}

	f.Fuzz(func(t *testing.T, raw string) {
		u, violation := parseAll(ss.Schema, raw)
		if violation != "" {
			t.Fatalf("C07 violated: %s\nraw: %q", violation, raw)
		}

		if u == nil {
			return
		}

		if ss.Type(u.ResType) == nil {
			t.Fatalf("C07 violated: resource type %q is not in the schema\nraw: %q", u.ResType, raw)
		}

		if _, msg := canonicalOracle(ss.Schema, u); msg != "" && !strings.HasPrefix(msg, knownPrefix) {
			t.Fatalf("C08 violated: %s\nraw: %q", msg, raw)
		}
	})
}

package props

import (
	"encoding/json"
	"fmt"
	"reflect"
	"strings"
	"testing"
	"time"

	"github.com/mfcochauxlaberge/jsonapi"
	"pgregory.net/rapid"

	"verif/harness/gen"
	"verif/harness/oracle"
	"verif/harness/rec"
)

// C20 — a struct accepted by Check is safe to use everywhere.

func kindOfGoType(rt reflect.Type) (kind int, nullable, ok bool) {
	for _, k := range gen.Kinds {
		if rt == gen.GoTypeOf(k, false) {
			return k, false, true
		}

		if rt == gen.GoTypeOf(k, true) {
			return k, true, true
		}
	}

	return 0, false, false
}

// derive computes, from the tags and Go types alone, the type a shape declares.
// ok is false when the derivation is not defined (no ID field, unsupported
// attribute type ...): Check is then expected to reject, which C20 does not
// require, so nothing is compared in that case.
func derive(s gen.Shape) (name string, attrs map[string]jsonapi.Attr, rels map[string]jsonapi.Rel, declared []gen.FieldShape) {
	attrs = map[string]jsonapi.Attr{}
	rels = map[string]jsonapi.Rel{}

	for _, f := range s.Fields {
		if f.Name == "ID" && f.HasAPI {
			name = f.API
		}
	}

	for _, f := range s.Fields {
		if !f.HasAPI || f.Name == "ID" {
			continue
		}

		jsonName := ""
		if f.HasJSON {
			jsonName = f.JSON
		}

		parts := strings.Split(f.API, ",")

		switch {
		case f.API == "attr":
			k, nullable, _ := kindOfGoType(f.GoType)
			attrs[jsonName] = jsonapi.Attr{Name: jsonName, Type: k, Nullable: nullable}
			declared = append(declared, f)
		case parts[0] == "rel" && len(parts) >= 2:
			rel := jsonapi.Rel{FromType: name, FromName: jsonName, ToType: parts[1], ToOne: f.GoType != reflect.TypeOf([]string{})}
			if len(parts) == 3 {
				rel.ToName = parts[2]
			}

			rels[jsonName] = rel
			declared = append(declared, f)
		}
	}

	return name, attrs, rels, declared
}

func sameDefs(name string, attrs map[string]jsonapi.Attr, rels map[string]jsonapi.Rel, typ jsonapi.Type, what string) string {
	if typ.Name != name {
		return fmt.Sprintf("%s: type name %q, the ID field's api tag says %q", what, typ.Name, name)
	}

	if len(typ.Attrs) != len(attrs) || len(typ.Rels) != len(rels) {
		return fmt.Sprintf("%s: %d attributes and %d relationships, the tags declare %d and %d", what, len(typ.Attrs), len(typ.Rels), len(attrs), len(rels))
	}

	for n, a := range attrs {
		if got, ok := typ.Attrs[n]; !ok || got != a {
			return fmt.Sprintf("%s: attribute %q is %+v (present=%v), the tags and Go type declare %+v", what, n, got, ok, a)
		}
	}

	for n, r := range rels {
		if got, ok := typ.Rels[n]; !ok || got != r {
			return fmt.Sprintf("%s: relationship %q is %s (present=%v), the tags and Go type declare %s", what, n, gen.RelString(got), ok, gen.RelString(r))
		}
	}

	return ""
}

// exercise runs everything C20 lists on an accepted struct (given by value or
// by pointer) and returns a description of the first thing that goes wrong.
func exercise(valueOf func(jsonapi.Attr, int) any, s gen.Shape, arg any, how string) string {
	name, attrs, rels, declared := derive(s)

	var (
		w   *jsonapi.Wrapper
		typ jsonapi.Type
		err error
	)

	if p := oracle.Try(func() { w = jsonapi.Wrap(arg) }); p != nil {
		return fmt.Sprintf("Wrap(%s): %s", how, p)
	}

	if p := oracle.Try(func() { typ, err = jsonapi.BuildType(arg) }); p != nil {
		return fmt.Sprintf("BuildType(%s): %s", how, p)
	}

	if err != nil {
		return fmt.Sprintf("BuildType(%s) fails although Check accepts: %v", how, err)
	}

	if m := sameDefs(name, attrs, rels, typ, "BuildType"); m != "" {
		return m
	}

	if typ.NewFunc == nil {
		return "BuildType: NewFunc is nil"
	}

	var msg string

	if p := oracle.Try(func() {
		if m := sameDefs(name, attrs, rels, w.GetType(), "Wrapper.GetType"); m != "" {
			msg = m
			return
		}

		if m := sameDefs(name, attrs, rels, jsonapi.Type{Name: name, Attrs: w.Attrs(), Rels: w.Rels()}, "Wrapper.Attrs/Rels"); m != "" {
			msg = m
			return
		}

		fresh := typ.New()
		if fresh == nil || fresh.GetType().Name != name {
			msg = "Type.New() does not return a resource of the type"
			return
		}

		// ... and the library's own comparison agrees.
		if !typ.Equal(w.GetType()) || !typ.Equal(fresh.GetType()) {
			msg = fmt.Sprintf("Type.Equal: the built type equals the wrapper's type: %v, the type of Type.New(): %v", typ.Equal(w.GetType()), typ.Equal(fresh.GetType()))
			return
		}

		if n := w.New(); n == nil || n.GetType().Name != name {
			msg = "Wrapper.New() does not return a resource of the type"
			return
		}

		if c := w.Copy(); c == nil || c.GetType().Name != name {
			msg = "Wrapper.Copy() does not return a resource of the type"
			return
		}
	}); p != nil {
		return fmt.Sprintf("New/Copy/GetType (%s): %s", how, p)
	}

	if msg != "" {
		return msg
	}

	// id
	if p := oracle.Try(func() {
		w.Set("id", "some-id")

		if got := w.Get("id"); got != "some-id" {
			msg = fmt.Sprintf("Get(id) = %v after Set(id, some-id)", got)
		}
	}); p != nil {
		return fmt.Sprintf("Set/Get id (%s): %s", how, p)
	}

	if msg != "" {
		return msg
	}

	// every declared field
	fields := []string{}
	relNames := []string{}

	for i, f := range declared {
		jsonName := ""
		if f.HasJSON {
			jsonName = f.JSON
		}

		fields = append(fields, jsonName)

		var v any

		if f.API == "attr" {
			k, nullable, _ := kindOfGoType(f.GoType)
			v = valueOf(jsonapi.Attr{Type: k, Nullable: nullable}, i)
		} else {
			relNames = append(relNames, jsonName)

			if f.GoType == reflect.TypeOf([]string{}) {
				v = []string{"x", "y"}
			} else {
				v = "x"
			}
		}

		if p := oracle.Try(func() {
			w.Set(jsonName, v)

			got := w.Get(jsonName)
			if f.API == "attr" {
				a := attrs[jsonName]
				if ok, why := oracle.SameValue(a, v, got); !ok && !(isNilValue(v) && isNilValue(got)) {
					msg = fmt.Sprintf("field %s (json %q): Get returns %s after Set(%s): %s", f.Name, jsonName, gen.Show(got), gen.Show(v), why)
				}
			} else if !reflect.DeepEqual(got, v) {
				msg = fmt.Sprintf("field %s (json %q): Get returns %v after Set(%v)", f.Name, jsonName, got, v)
			}
		}); p != nil {
			return fmt.Sprintf("Set/Get of field %s (json %q, %v) (%s): %s", f.Name, jsonName, f.GoType, how, p)
		}

		if msg != "" {
			return msg
		}
	}

	// Copy and New again, now that every field holds a (non-zero) value.
	if p := oracle.Try(func() {
		cp := w.Copy()
		if cp == nil || cp.GetType().Name != name || cp.Get("id") != "some-id" {
			msg = "Wrapper.Copy() of a filled struct lost the type or the ID"
			return
		}

		for _, f := range declared {
			jsonName := ""
			if f.HasJSON {
				jsonName = f.JSON
			}

			a, b := w.Get(jsonName), cp.Get(jsonName)
			if f.API == "attr" {
				if ok, why := oracle.SameValue(attrs[jsonName], a, b); !ok && !(isNilValue(a) && isNilValue(b)) {
					msg = fmt.Sprintf("Wrapper.Copy(): field %s (json %q) reads %s in the copy, %s in the source: %s", f.Name, jsonName, gen.Show(b), gen.Show(a), why)
					return
				}
			} else if !reflect.DeepEqual(a, b) {
				msg = fmt.Sprintf("Wrapper.Copy(): field %s (json %q) reads %v in the copy, %v in the source", f.Name, jsonName, b, a)
				return
			}
		}

		if n := w.New(); n == nil || n.GetType().Name != name {
			msg = "Wrapper.New() of a filled struct does not return a resource of the type"
		}
	}); p != nil {
		return fmt.Sprintf("Copy/New of a filled struct (%s): %s", how, p)
	}

	if msg != "" {
		return msg
	}

	// A copy is equal to its source by the library's own comparison, also when
	// the byte strings and lists are empty without being nil.
	if p := oracle.Try(func() {
		if cp := w.Copy(); !jsonapi.EqualStrict(w, cp) || !jsonapi.EqualStrict(cp, w) {
			msg = "Wrapper.Copy() of a filled struct is not EqualStrict to its source"
			return
		}

		for n, a := range w.Attrs() {
			if a.Type == jsonapi.AttrTypeBytes {
				if a.Nullable {
					w.Set(n, &[]byte{})
				} else {
					w.Set(n, []byte{})
				}
			}
		}

		for n, rel := range w.Rels() {
			if !rel.ToOne {
				w.Set(n, []string{})
			}
		}

		if cp := w.Copy(); !jsonapi.EqualStrict(w, cp) || !jsonapi.EqualStrict(cp, w) {
			msg = "Wrapper.Copy() of a struct holding empty (non-nil) byte strings and lists is not EqualStrict to its source"
		}
	}); p != nil {
		return fmt.Sprintf("Copy/EqualStrict (%s): %s", how, p)
	}

	if msg != "" {
		return msg
	}

	var out []byte
	if p := oracle.Try(func() { out = jsonapi.MarshalResource(w, "/p", fields, map[string][]string{name: relNames}) }); p != nil {
		return fmt.Sprintf("MarshalResource (%s): %s", how, p)
	}

	if !json.Valid(out) {
		return fmt.Sprintf("MarshalResource returned invalid JSON: %q", out)
	}

	// What a caller does with a built type is its own business: the type
	// built next still carries exactly what the tags declare.
	if p := oracle.Try(func() {
		for k := range typ.Attrs {
			delete(typ.Attrs, k)
			break
		}

		for k := range typ.Rels {
			delete(typ.Rels, k)
			break
		}

		_ = typ.AddAttr(jsonapi.Attr{Name: "zz-added-later", Type: jsonapi.AttrTypeBool})
		typ.Name += "-renamed"
	}); p != nil {
		return fmt.Sprintf("editing the built type (%s): %s", how, p)
	}

	var again jsonapi.Type

	if p := oracle.Try(func() { again, err = jsonapi.BuildType(arg) }); p != nil {
		return fmt.Sprintf("second BuildType(%s): %s", how, p)
	}

	if err != nil {
		return fmt.Sprintf("second BuildType(%s) fails: %v", how, err)
	}

	if m := sameDefs(name, attrs, rels, again, "BuildType after the first built type was edited"); m != "" {
		return m
	}

	if m := sameDefs(name, attrs, rels, jsonapi.Type{Name: name, Attrs: w.Attrs(), Rels: w.Rels()}, "Wrapper.Attrs/Rels after the built type was edited"); m != "" {
		return m
	}

	return ""
}

func shapeLabels(s gen.Shape) (labels []string, unusual bool, tagged int, hasID bool) {
	if s.EmbedID {
		labels = append(labels, "id:embedded")
	}

	for _, f := range s.Fields {
		if f.Name == "ID" {
			hasID = true

			if f.GoType != reflect.TypeOf("") || !f.HasJSON || f.JSON != "id" {
				unusual = true
				labels = append(labels, "id:unusual")
			}

			continue
		}

		if !f.HasAPI {
			continue
		}

		parts := strings.Split(f.API, ",")
		if f.API == "attr" || parts[0] == "rel" {
			tagged++
		}

		if !f.HasJSON || f.JSON == "" || f.JSON == "id" {
			unusual = true
			labels = append(labels, "json:missing-or-id")
		}

		if parts[0] == "rel" && (len(parts) < 2 || len(parts) > 3) {
			unusual = true
			labels = append(labels, "rel:arity")
		}
	}

	seen := map[string]bool{}

	for _, f := range s.Fields {
		if f.HasJSON {
			if seen[f.JSON] {
				unusual = true
				labels = append(labels, "json:duplicate")
			}

			seen[f.JSON] = true
		}
	}

	return labels, unusual, tagged, hasID
}

func TestC20Shapes(t *testing.T) {
	r := rec.For("C20Shapes")

	rapid.Check(t, prop(r, func(t *rapid.T) {
		s := gen.StructShape(t)
		st := s.StructType()
		val := reflect.New(st).Elem().Interface()
		ptr := reflect.New(st).Interface()

		var cerr error
		if p := oracle.Try(func() { cerr = jsonapi.Check(val) }); p != nil {
			t.Fatalf("C20 violated: Check %s\nshape: %s", p, s)
		}

		labels, unusual, tagged, hasID := shapeLabels(s)

		// Acceptance is a matter of the struct type: a value whose
		// interface-typed fields hold something gets the same answer as the
		// zero value.
		filled := reflect.New(st).Elem()
		holds := false

		for i := 0; i < filled.NumField(); i++ {
			if f := filled.Field(i); f.Kind() == reflect.Interface && f.CanSet() {
				for _, v := range []any{"x", fmt.Errorf("e"), time.Second} {
					if reflect.TypeOf(v).AssignableTo(f.Type()) {
						f.Set(reflect.ValueOf(v))
						holds = true

						break
					}
				}
			}
		}

		if holds {
			var ferr error
			if p := oracle.Try(func() { ferr = jsonapi.Check(filled.Interface()) }); p != nil {
				t.Fatalf("C20 violated: Check (interface fields filled) %s\nshape: %s", p, s)
			}

			if (ferr == nil) != (cerr == nil) {
				t.Fatalf("C20 violated: Check says %v for the zero value and %v for a value whose interface-typed fields hold something\nshape: %s", cerr, ferr, s)
			}
		}

		if cerr != nil {
			for _, c := range []struct {
				arg any
				how string
			}{{val, "value"}, {ptr, "pointer"}} {
				var berr error
				if p := oracle.Try(func() { _, berr = jsonapi.BuildType(c.arg) }); p != nil {
					t.Fatalf("C20 violated: BuildType(%s) of a rejected struct %s\nshape: %s", c.how, p, s)
				}

				if berr == nil {
					t.Fatalf("C20 violated: BuildType(%s) accepts a struct that Check rejects (%v)\nshape: %s", c.how, cerr, s)
				}

				if p := oracle.Try(func() { _ = jsonapi.Wrap(c.arg) }); p == nil {
					t.Fatalf("C20 violated: Wrap(%s) accepts a struct that Check rejects (%v)\nshape: %s", c.how, cerr, s)
				}
			}

			r.Case(s.String(), hasID && tagged >= 2 && unusual, append(labels, "rejected")...)

			return
		}

		for _, c := range []struct {
			arg any
			how string
		}{{val, "value"}, {reflect.New(st).Interface(), "pointer"}} {
			draw := func(a jsonapi.Attr, i int) any { return gen.Value(t, a, fmt.Sprintf("val%d-%s", i, c.how)) }
			if msg := exercise(draw, s, c.arg, c.how); msg != "" {
				t.Fatalf("C20 violated: Check accepts the struct but %s\nshape: %s", msg, s)
			}
		}

		r.Case(s.String(), hasID && tagged >= 2 && unusual, append(labels, "accepted")...)
	}))
}

// Hand-declared shapes that reflect.StructOf cannot express.
type c20Named string

type c20Embedded struct {
	Inner string `json:"inner" api:"attr"`
}

type c20WithNamed struct {
	ID string   `json:"id" api:"t"`
	N  c20Named `json:"n" api:"attr"`
}

type c20WithUnexported struct {
	ID     string   `json:"id" api:"t"`
	A      string   `json:"a" api:"attr"`
	hidden string   `json:"hidden" api:"attr"` //nolint
	R      []string `json:"r" api:"rel,t"`
}

type c20ID string

type c20WithNamedID struct {
	ID c20ID  `json:"id" api:"t"`
	A  string `json:"a" api:"attr"`
}

type c20WithEmbedded struct {
	ID string `json:"id" api:"t"`
	c20Embedded
	B int `json:"b" api:"attr"`
}

// An embedded time.Time (or *time.Time) can itself be tagged as an attribute.
type c20WithEmbeddedTime struct {
	ID        string `json:"id" api:"t"`
	time.Time `json:"created" api:"attr"`
	A         string `json:"a" api:"attr"`
}

type c20WithEmbeddedTimePtr struct {
	*time.Time `json:"created" api:"attr"`
	ID         string `json:"id" api:"t"`
}

func TestC20Regress(t *testing.T) {
	// accepted or rejected, but consistently
	for name, v := range map[string]any{
		"embedded-time-attr":     c20WithEmbeddedTime{},
		"embedded-time-ptr-attr": c20WithEmbeddedTimePtr{},
		"named-field-type":       c20WithNamed{},
		"unexported-field":       c20WithUnexported{},
		"embedded-struct":        c20WithEmbedded{},
		"named-id-type":          c20WithNamedID{},
	} {
		t.Run(name, func(t *testing.T) {
			cerr := jsonapi.Check(v)
			_, berr := jsonapi.BuildType(v)
			wp := oracle.Try(func() {
				w := jsonapi.Wrap(reflect.New(reflect.TypeOf(v)).Interface())
				w.Set("id", "x")

				for n := range w.Attrs() {
					_ = w.Get(n)
				}

				_ = w.Copy()
				for n := range w.Attrs() {
					w.Set(n, w.Get(n))
				}

				_ = jsonapi.MarshalResource(w, "", []string{"a", "b", "n", "inner", "hidden", "r", "created"}, nil)
			})

			if cerr == nil && (berr != nil || wp != nil) {
				t.Fatalf("C20 violated: Check accepts %T but BuildType says %v and use panics with %v", v, berr, wp)
			}

			if cerr == nil {
				// the built type carries the ID tag's name and the ID can be set and read
				typ, _ := jsonapi.BuildType(v)
				w := jsonapi.Wrap(reflect.New(reflect.TypeOf(v)).Interface())
				w.Set("id", "some-id")

				if typ.Name != "t" || w.GetType().Name != "t" || w.Get("id") != "some-id" {
					t.Fatalf("C20 violated: Check accepts %T but the built type is named %q, the wrapper's %q, and Get(id) = %v after Set(id, some-id)", v, typ.Name, w.GetType().Name, w.Get("id"))
				}

				if cp := w.Copy(); cp.Get("id") != "some-id" || cp.GetType().Name != "t" {
					t.Fatalf("C20 violated: Copy of %T lost the ID or the type name", v)
				}
			}

			if cerr != nil && (berr == nil || wp == nil) {
				t.Fatalf("C20 violated: Check rejects %T (%v) but BuildType err=%v, Wrap panic=%v", v, cerr, berr, wp)
			}
		})
	}

	shape := func(fields ...gen.FieldShape) gen.Shape { return gen.Shape{Fields: fields} }
	str, strs, num := reflect.TypeOf(""), reflect.TypeOf([]string{}), reflect.TypeOf(int(0))
	okID := gen.FieldShape{Name: "ID", GoType: str, HasAPI: true, API: "t", HasJSON: true, JSON: "id"}

	for name, s := range map[string]gen.Shape{
		"rel-without-target": shape(okID, gen.FieldShape{Name: "R", GoType: str, HasAPI: true, API: "rel", HasJSON: true, JSON: "r"}),
		"non-string-id":      shape(gen.FieldShape{Name: "ID", GoType: num, HasAPI: true, API: "t", HasJSON: true, JSON: "id"}),
		"id-json-tag-not-id": shape(gen.FieldShape{Name: "ID", GoType: str, HasAPI: true, API: "t", HasJSON: true, JSON: "ident"},
			gen.FieldShape{Name: "A", GoType: str, HasAPI: true, API: "attr", HasJSON: true, JSON: "a"}),
		"id-without-json-tag":  shape(gen.FieldShape{Name: "ID", GoType: str, HasAPI: true, API: "t"}),
		"attr-without-json":    shape(okID, gen.FieldShape{Name: "A", GoType: str, HasAPI: true, API: "attr"}),
		"duplicate-json-attrs": shape(okID, gen.FieldShape{Name: "A", GoType: str, HasAPI: true, API: "attr", HasJSON: true, JSON: "a"}, gen.FieldShape{Name: "B", GoType: num, HasAPI: true, API: "attr", HasJSON: true, JSON: "a"}),
		"attr-json-id":         shape(okID, gen.FieldShape{Name: "A", GoType: num, HasAPI: true, API: "attr", HasJSON: true, JSON: "id"}),
		"attr-shares-id-json-tag": shape(gen.FieldShape{Name: "ID", GoType: str, HasAPI: true, API: "t", HasJSON: true, JSON: "a"},
			gen.FieldShape{Name: "A", GoType: num, HasAPI: true, API: "attr", HasJSON: true, JSON: "a"}),
		"unknown-api-tag-shares-json": shape(okID, gen.FieldShape{Name: "X", GoType: num, HasAPI: true, API: "attr,x", HasJSON: true, JSON: "r"},
			gen.FieldShape{Name: "R", GoType: str, HasAPI: true, API: "rel,t", HasJSON: true, JSON: "r"}),
		"untagged-shares-json": shape(okID, gen.FieldShape{Name: "U", GoType: num, HasJSON: true, JSON: "a"}, gen.FieldShape{Name: "A", GoType: str, HasAPI: true, API: "attr", HasJSON: true, JSON: "a"}),
		"attr-and-rel-same":    shape(okID, gen.FieldShape{Name: "A", GoType: str, HasAPI: true, API: "attr", HasJSON: true, JSON: "a"}, gen.FieldShape{Name: "R", GoType: strs, HasAPI: true, API: "rel,t", HasJSON: true, JSON: "a"}),
		"fine":                 shape(okID, gen.FieldShape{Name: "A", GoType: str, HasAPI: true, API: "attr", HasJSON: true, JSON: "a"}, gen.FieldShape{Name: "R", GoType: strs, HasAPI: true, API: "rel,t,inv", HasJSON: true, JSON: "r"}),
	} {
		t.Run(name, func(t *testing.T) {
			st := s.StructType()
			val := reflect.New(st).Elem().Interface()

			if jsonapi.Check(val) != nil {
				if _, err := jsonapi.BuildType(val); err == nil {
					t.Fatalf("C20 violated: BuildType accepts what Check rejects: %s", s)
				}

				if p := oracle.Try(func() { jsonapi.Wrap(val) }); p == nil {
					t.Fatalf("C20 violated: Wrap accepts what Check rejects: %s", s)
				}

				return
			}

			fixed := func(a jsonapi.Attr, i int) any {
				if a.Nullable {
					return gen.PtrTo(gen.ZeroValue(jsonapi.Attr{Type: a.Type}))
				}

				return gen.ZeroValue(a)
			}

			for _, how := range []string{"value", "pointer"} {
				arg := val
				if how == "pointer" {
					arg = reflect.New(st).Interface()
				}

				if msg := exercise(fixed, s, arg, how); msg != "" {
					t.Fatalf("C20 violated: Check accepts the struct but %s\nshape: %s", msg, s)
				}
			}
		})
	}
}

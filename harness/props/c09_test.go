package props

import (
	"fmt"
	"math"
	"reflect"
	"sort"
	"strings"
	"testing"
	"time"

	"github.com/mfcochauxlaberge/jsonapi"
	"pgregory.net/rapid"

	"verif/harness/gen"
	"verif/harness/kf"
	"verif/harness/oracle"
	"verif/harness/rec"
)

// C09 — Range returns exactly the selected, filtered, sorted page.

const sigSortKindIgnored = "range-sort-kind-ignored"

// sortKindIgnored: the kinds the recorded finding is about.
func sortKindIgnored(a jsonapi.Attr) bool {
	return (a.Type == jsonapi.AttrTypeUint64) || (a.Type == jsonapi.AttrTypeBytes && a.Nullable)
}

// verifyIgnoring reports whether the result is exactly what the defect model
// (the affected rules are ignored) predicts.
func verifyIgnoring(verify func([]string) string, kept []string) bool {
	return verify(kept) == ""
}

// smallValue draws from a domain of three values per kind (plus nil) so that
// ties on sorting rules are common.
func smallValue(t *rapid.T, attr jsonapi.Attr, label string) any {
	if attr.Nullable && rapid.IntRange(0, 3).Draw(t, label+"-nil") == 0 {
		return gen.TypedNil(attr.Type)
	}

	i := rapid.IntRange(0, 2).Draw(t, label)
	t0 := time.Date(2001, 2, 3, 4, 5, 6, 7, time.UTC)

	var b any

	switch attr.Type {
	case jsonapi.AttrTypeString:
		b = []string{"", "a", "ab"}[i]
	case jsonapi.AttrTypeInt:
		b = []int{math.MinInt64, -1, 2}[i]
	case jsonapi.AttrTypeInt8:
		b = []int8{-128, 0, 127}[i]
	case jsonapi.AttrTypeInt16:
		b = []int16{-3, 0, 300}[i]
	case jsonapi.AttrTypeInt32:
		b = []int32{-70000, 1, 70000}[i]
	case jsonapi.AttrTypeInt64:
		b = []int64{-1, 0, math.MaxInt64}[i]
	case jsonapi.AttrTypeUint:
		b = []uint{0, 1 << 63, math.MaxUint64}[i]
	case jsonapi.AttrTypeUint8:
		b = []uint8{0, 128, 255}[i]
	case jsonapi.AttrTypeUint16:
		b = []uint16{1, 32768, 65535}[i]
	case jsonapi.AttrTypeUint32:
		b = []uint32{0, 1 << 31, math.MaxUint32}[i]
	case jsonapi.AttrTypeUint64:
		b = []uint64{1, 1<<63 - 1, 1 << 63}[i]
	case jsonapi.AttrTypeBool:
		b = i > 0
	case jsonapi.AttrTypeTime:
		// the first two are the same instant in different zones: a tie
		// (and two instants far from the present: the zero time and year 9000)
		b = rapid.SampledFrom([]time.Time{
			t0, t0.In(time.FixedZone("", 3600)), t0.Add(time.Hour).In(time.FixedZone("", 7200)),
			{}, time.Date(9000, 1, 2, 3, 4, 5, 6, time.UTC),
		}).Draw(t, label+"-time")
	case jsonapi.AttrTypeBytes:
		// (lengths differ too: the order is lexicographic, not by length; the
		// empty byte string comes allocated and as a nil slice: a tie)
		b = rapid.SampledFrom([][]byte{{}, nil, {1, 2}, {2, 1}, {0, 9, 9}, {1}, {1, 2, 0}}).Draw(t, label+"-bytes")
	}

	if attr.Nullable {
		return gen.PtrTo(b)
	}

	return b
}

type rangeItem struct {
	id   string
	vals map[string]any
}

// compareByRule orders two items under one rule (nil lowest, '-' reverses).
func compareByRule(ts *gen.TypeSpec, rule string, a, b rangeItem) int {
	desc := strings.HasPrefix(rule, "-")
	field := strings.TrimPrefix(rule, "-")
	c := 0

	if field == "id" {
		c = strings.Compare(a.id, b.id)
	} else {
		an, av := gen.Deref(a.vals[field])
		bn, bv := gen.Deref(b.vals[field])

		switch {
		case an && bn:
			c = 0
		case an:
			c = -1
		case bn:
			c = 1
		default:
			if x, ok := av.(bool); ok {
				y := bv.(bool)

				switch {
				case x == y:
					c = 0
				case !x:
					c = -1
				default:
					c = 1
				}
			} else {
				c = oracle.CompareOrdered(av, bv)
			}
		}
	}

	if desc {
		return -c
	}

	return c
}

func compareByRules(ts *gen.TypeSpec, rules []string, a, b rangeItem) int {
	for _, r := range rules {
		if c := compareByRule(ts, r, a, b); c != 0 {
			return c
		}
	}

	return 0
}

func idsOf(c jsonapi.Collection) []string {
	out := []string{}
	for i := 0; i < c.Len(); i++ {
		out = append(out, c.At(i).Get("id").(string))
	}

	return out
}

// buildCollection creates a collection of the chosen implementation holding
// fresh resources with the items' values.
func buildCollection(impl string, ts *gen.TypeSpec, items []rangeItem) jsonapi.Collection {
	soft := *ts
	soft.Struct = false
	wrapped := *ts
	wrapped.Struct = true
	ws := gen.BuildSchema([]gen.TypeSpec{wrapped})
	wts := &ws.Types[0]

	mk := func(spec *gen.TypeSpec, it rangeItem) jsonapi.Resource {
		res := gen.NewResource(spec)
		res.Set("id", it.id)

		for _, k := range gen.SortedKeys(it.vals) {
			res.Set(k, gen.Clone(it.vals[k]))
		}

		return res
	}

	switch impl {
	case "softcol":
		if a, ok := soft.Attr(c09Renamed); ok && c09Renamed != "" {
			// (see c09Renamed) the type has zz-old instead of the attribute
			// while the members are stored
			old := soft
			old.Attrs = append([]jsonapi.Attr{}, soft.Attrs...)

			for i := range old.Attrs {
				if old.Attrs[i].Name == c09Renamed {
					old.Attrs[i].Name = "zz-old"
				}
			}

			sort.Slice(old.Attrs, func(x, y int) bool { return old.Attrs[x].Name < old.Attrs[y].Name })

			typ := gen.SoftTypeOf(&old)
			col := &jsonapi.SoftCollection{}
			col.SetType(&typ)

			for _, it := range items {
				vals := map[string]any{}
				for k, v := range it.vals {
					if k != c09Renamed {
						vals[k] = v
					}
				}

				col.Add(mk(&old, rangeItem{id: it.id, vals: vals}))
			}

			col.Type.RemoveAttr("zz-old")

			if err := col.AddAttr(a); err != nil {
				panic(fmt.Sprintf("harness: AddAttr(%+v): %v", a, err))
			}

			return col
		}

		typ := gen.SoftTypeOf(&soft)
		col := &jsonapi.SoftCollection{}
		col.SetType(&typ)

		// Every other collection has a past: members that were added in
		// between the others and removed again before anybody looks.
		past := len(items)%2 == 1

		for i, it := range items {
			if past && i%2 == 1 {
				col.Add(mk(&soft, rangeItem{id: fmt.Sprintf("zz-gone-%d", i), vals: it.vals}))
			}

			col.Add(mk(&soft, it))
		}

		if past {
			for i := range items {
				if i%2 == 1 {
					col.Remove(fmt.Sprintf("zz-gone-%d", i))
				}
			}
		}

		return col
	case "resources-soft":
		col := &jsonapi.Resources{}
		for _, it := range items {
			col.Add(mk(&soft, it))
		}

		return col
	case "resources-wrapped":
		col := &jsonapi.Resources{}
		for _, it := range items {
			col.Add(mk(wts, it))
		}

		return col
	default:
		col := jsonapi.WrapCollection(gen.NewResource(wts))
		for _, it := range items {
			col.Add(mk(wts, it))
		}

		return col
	}
}

// c09Renamed names the attribute that replaced another one in the type of the
// soft collections of the current case ("" if none); set by TestC09Range.
var c09Renamed string

var rangeImpls = []string{"softcol", "resources-soft", "resources-wrapped", "wrapcol"}

func TestC09Range(t *testing.T) {
	r := rec.For("C09Range")

	rapid.Check(t, prop(r, func(t *rapid.T) {
		ts := filterType(t, 4, true)

		// Attribute names are any member names: with a dash or an underscore
		// inside, non-ASCII.
		for i := range ts.Attrs {
			if rapid.IntRange(0, 2).Draw(t, "oddname") == 0 {
				ts.Attrs[i].Name = fmt.Sprintf(rapid.SampledFrom([]string{"w-%d", "a%d-b", "a_%d", "é%d", "a-b-%d", "id%d", "a%d-id"}).Draw(t, "oddname-form"), i)
			}
		}

		n := rapid.IntRange(0, gen.Upto(t, "n", 12)).Draw(t, "n")
		if n < 4 && rapid.Bool().Draw(t, "more") {
			n += 5
		}

		// Now and then a collection (and an ID list) of a size at which an
		// implementation may switch strategy.
		many := rapid.IntRange(0, 11).Draw(t, "many") == 0
		if many {
			n = rapid.IntRange(20, 40).Draw(t, "n-many")
		}

		// ... and, rarely, of a size at which work may be split up.
		idPattern := `[a-c0-2]{1,2}` // (IDs made of digits only are strings like the others)
		huge := false

		if many && rapid.IntRange(0, 7).Draw(t, "huge") == 0 && rapid.IntRange(0, 2).Draw(t, "huge-really") == 1 {
			huge, n, idPattern = true, rapid.IntRange(129, 230).Draw(t, "n-huge"), `[a-c0-2]{2,4}`
		}

		items := []rangeItem{}
		seen := map[string]bool{}

		for i := 0; i < n; i++ {
			id := rapid.StringMatching(idPattern).Draw(t, "id")
			if rapid.IntRange(0, 11).Draw(t, "emptyid") == 0 {
				id = "" // a member whose ID is missing (still unique)
			}

			if seen[id] {
				continue
			}

			seen[id] = true
			it := rangeItem{id: id, vals: map[string]any{}}

			for _, a := range ts.Attrs {
				it.vals[a.Name] = smallValue(t, a, fmt.Sprintf("v%d-%s", i, a.Name))
			}

			// Relationship values (small domains), so that filters on
			// relationships take part in the selection.
			for _, rel := range ts.Rels {
				if rel.ToOne {
					it.vals[rel.FromName] = rapid.SampledFrom([]string{"", "x", "y"}).Draw(t, fmt.Sprintf("v%d-%s", i, rel.FromName))
				} else {
					it.vals[rel.FromName] = rapid.SampledFrom([][]string{{}, {"x"}, {"y", "x"}}).Draw(t, fmt.Sprintf("v%d-%s", i, rel.FromName))
				}
			}

			items = append(items, it)
		}

		// A soft collection whose type once had another attribute where one
		// of its attributes is now (taken out, this one put in, after the
		// members were stored): every member reads the zero value there.
		c09Renamed = ""

		for _, a := range ts.Attrs {
			if !a.Nullable && c09Renamed == "" && rapid.IntRange(0, 7).Draw(t, "renamed-"+a.Name) == 0 {
				c09Renamed = a.Name

				for i := range items {
					items[i].vals[a.Name] = gen.ZeroValue(a)
				}
			}
		}

		// ID list: empty, or a duplicate-free subset plus absent IDs.
		ids := []string{}

		if !huge && (rapid.IntRange(0, 2).Draw(t, "useIDs") == 0 || (many && rapid.Bool().Draw(t, "useIDs-many"))) || huge && rapid.IntRange(0, 3).Draw(t, "useIDs-huge") == 0 {
			for _, it := range items {
				if rapid.IntRange(0, 3).Draw(t, "pick") > 0 {
					ids = append(ids, it.id)
				}
			}

			if rapid.Bool().Draw(t, "absent") {
				ids = append(ids, "zz")
			}

			if len(ids) > 1 {
				ids = rapid.Permutation(ids).Draw(t, "idperm")
			}
		}

		// Filter: nil or a tree relative to a member's values.
		var tree *gen.FNode

		if len(items) > 0 && (huge || rapid.IntRange(0, 2).Draw(t, "useFilter") == 0) {
			ref := items[rapid.IntRange(0, len(items)-1).Draw(t, "ref")]
			vals := map[string]any{"id": ref.id}

			for k, v := range ref.vals {
				vals[k] = v
			}

			tree = gen.FilterTree(t, &ts, vals, rapid.IntRange(1, 3).Draw(t, "fdepth"), "f")
		}

		// Rules.
		rules := []string{}
		pool := []string{"id"}

		for _, a := range ts.Attrs {
			pool = append(pool, a.Name)
		}

		for k := rapid.IntRange(0, 4).Draw(t, "nrules"); k > 0; k-- {
			rule := rapid.SampledFrom(pool).Draw(t, "rule")
			if rapid.Bool().Draw(t, "desc") {
				rule = "-" + rule
			}

			rules = append(rules, rule)
		}

		size := rapid.SampledFrom([]uint{0, 1, 2, 3, uint(len(items)), uint(len(items) + 1), 1 << 31, 1<<63 - 1, 1 << 63, math.MaxUint64}).Draw(t, "size")

		// (paging through hundreds of members three at a time costs more
		// than it shows: pages of 50 there)
		if len(items) > 128 && size >= 1 && size <= 3 {
			size = 50
		}

		var num uint

		switch {
		case size == 0:
			num = rapid.SampledFrom([]uint{0, 1, 5}).Draw(t, "num")
		case size <= 4:
			num = uint(rapid.IntRange(0, 5).Draw(t, "num"))
		default:
			num = 0
		}

		impl := rapid.SampledFrom(rangeImpls).Draw(t, "impl")
		desc := fmt.Sprintf("%s impl=%s items=%s ids=%q filter=%v rules=%q size=%d num=%d", ts, impl, showItems(items), ids, tree, rules, size, num)

		// Reference model.
		matches := []rangeItem{}

		for _, it := range items {
			if len(ids) > 0 && !contains(ids, it.id) {
				continue
			}

			if tree != nil {
				vals := map[string]any{"id": it.id}
				for k, v := range it.vals {
					vals[k] = v
				}

				if !oracle.EvalFilter(tree, &ts, vals) {
					continue
				}
			}

			matches = append(matches, it)
		}

		byID := map[string]rangeItem{}
		for _, it := range items {
			byID[it.id] = it
		}

		// The caller's arguments: one ID list, one filter and one rule list,
		// handed to every call of the case (page after page), as a caller
		// paging through a collection does.
		argIDs := append([]string{}, ids...)
		argRules := append([]string{}, rules...)

		var argFilter *jsonapi.Filter
		if tree != nil {
			argFilter = tree.Build()
		}

		type heldPage struct {
			col  jsonapi.Collection
			ids  []string
			what string
		}

		held := []heldPage{}

		call := func(col jsonapi.Collection, size, num uint) ([]string, string) {
			var (
				f   = argFilter
				out jsonapi.Collection
			)

			before := idsOf(col)

			if p := oracle.Try(func() {
				out = jsonapi.Range(col, argIDs, f, argRules, size, num)
			}); p != nil {
				return nil, "Range " + p.String()
			}

			if out == nil || (reflect.ValueOf(out).Kind() == reflect.Ptr && reflect.ValueOf(out).IsNil()) {
				return nil, "Range returned a nil collection"
			}

			if after := idsOf(col); !reflect.DeepEqual(before, after) {
				return nil, fmt.Sprintf("Range changed the input collection: %q -> %q", before, after)
			}

			got := idsOf(out)
			held = append(held, heldPage{out, got, fmt.Sprintf("size=%d num=%d", size, num)})

			return got, ""
		}

		// stillHeld: a page stays what it was when it was returned, whatever
		// Range is asked afterwards.
		stillHeld := func() string {
			for _, h := range held {
				var now []string

				if p := oracle.Try(func() { now = idsOf(h.col) }); p != nil {
					return fmt.Sprintf("C09 violated: reading a page returned earlier (%s) %s\ncase: %s", h.what, p, desc)
				}

				if !reflect.DeepEqual(now, h.ids) {
					return fmt.Sprintf("C09 violated: the page returned for %s held %q and holds %q after later calls\ncase: %s", h.what, h.ids, now, desc)
				}
			}

			return ""
		}

		// Draws needed by the checks are made once, outside verify.
		shuffled := append([]rangeItem{}, items...)
		if len(shuffled) > 1 {
			shuffled = rapid.Permutation(shuffled).Draw(t, "shuffle")
		}

		other := rapid.SampledFrom(rangeImpls).Draw(t, "otherimpl")

		// verify checks everything against the order defined by the given rules.
		verify := func(rules []string) string {
			hasID := false

			for _, rule := range rules {
				if strings.TrimPrefix(rule, "-") == "id" {
					hasID = true
				}
			}

			col := buildCollection(impl, &ts, items)

			got, msg := call(col, size, num)
			if msg != "" {
				return fmt.Sprintf("C09 violated: %s\ncase: %s", msg, desc)
			}

			lo := uint64(num) * uint64(size)

			checkPage := func(rules []string, got []string, lo, size uint64, what string) string {
				// Validity: a sub-multiset of the matches, non-decreasing under the rules.
				count := map[string]int{}

				for _, id := range got {
					count[id]++

					it, ok := byID[id]
					if !ok || count[id] > 1 || !containsItem(matches, it.id) {
						return fmt.Sprintf("C09 violated: %s holds %q which is not a (single) matching resource\nresult: %q\nmatches: %q\ncase: %s", what, id, got, itemIDs(matches), desc)
					}
				}

				for i := 1; i < len(got); i++ {
					if compareByRules(&ts, rules, byID[got[i-1]], byID[got[i]]) > 0 {
						return fmt.Sprintf("C09 violated: %s is not ordered by the rules at position %d\nresult: %q\ncase: %s", what, i, got, desc)
					}
				}

				want := uint64(0)
				if lo < uint64(len(matches)) {
					want = uint64(len(matches)) - lo
					if size < want {
						want = size
					}
				}

				if uint64(len(got)) != want {
					return fmt.Sprintf("C09 violated: %s has %d resources, positions [%d, %d+%d) of %d matches hold %d\nresult: %q\ncase: %s", what, len(got), lo, lo, size, len(matches), want, got, desc)
				}

				return ""
			}

			if m := checkPage(rules, got, lo, uint64(size), "the page"); m != "" {
				return m
			}

			if hasID {
				sorted := append([]rangeItem{}, matches...)
				sort.SliceStable(sorted, func(i, j int) bool { return compareByRules(&ts, rules, sorted[i], sorted[j]) < 0 })

				want := []string{}
				for i := lo; i < uint64(len(sorted)) && i-lo < uint64(size); i++ {
					want = append(want, sorted[i].id)
				}

				if !reflect.DeepEqual(got, want) {
					return fmt.Sprintf("C09 violated: page %q, want %q\ncase: %s", got, want, desc)
				}

				// Same result for another initial order and for another implementation.
				got2, msg := call(buildCollection(other, &ts, shuffled), size, num)
				if msg != "" {
					return fmt.Sprintf("C09 violated: %s (shuffled, %s)\ncase: %s", msg, other, desc)
				}

				if !reflect.DeepEqual(got2, want) {
					return fmt.Sprintf("C09 violated: shuffled collection held as %s gives %q, want %q\ncase: %s", other, got2, want, desc)
				}
			}

			// Partition: consecutive pages cover the matches exactly once, in order.
			if size > 0 && (size <= 4 || len(items) > 128 && size == 50) {
				all := []string{}
				pages := uint((len(matches) + int(size) - 1) / int(size))

				for p := uint(0); p <= pages; p++ {
					pg, msg := call(col, size, p)
					if msg != "" {
						return fmt.Sprintf("C09 violated: %s (page %d)\ncase: %s", msg, p, desc)
					}

					if m := checkPage(rules, pg, uint64(p)*uint64(size), uint64(size), fmt.Sprintf("page %d", p)); m != "" {
						return m
					}
					all = append(all, pg...)
				}

				a := append([]string{}, all...)
				b := itemIDs(matches)

				sort.Strings(a)
				sort.Strings(b)

				if !reflect.DeepEqual(a, b) {
					return fmt.Sprintf("C09 violated: pages 0..%d hold %q, the matches are %q\ncase: %s", pages, all, itemIDs(matches), desc)
				}

				for i := 1; i < len(all); i++ {
					if compareByRules(&ts, rules, byID[all[i-1]], byID[all[i]]) > 0 {
						return fmt.Sprintf("C09 violated: the concatenation of the pages is not ordered at position %d: %q\ncase: %s", i, all, desc)
					}
				}
			}

			// Two unrelated requests on the same collection (everything,
			// by descending and by ascending ID) before the pages returned so
			// far are read again.
			if p := oracle.Try(func() {
				jsonapi.Range(col, nil, nil, []string{"-id"}, uint(len(items)+1), 0)
				jsonapi.Range(col, nil, nil, []string{"id"}, uint(len(items)+1), 0)
			}); p != nil {
				return fmt.Sprintf("C09 violated: Range (everything by ID) %s\ncase: %s", p, desc)
			}

			if m := stillHeld(); m != "" {
				return m
			}

			// The members of a collection may change between two requests
			// (through the resources At hands out): the same request again
			// goes by what they hold then.
			attr := ""

			for _, rule := range rules {
				if n := strings.TrimPrefix(rule, "-"); n != "id" && attr == "" {
					attr = n
				}
			}

			if tree == nil && hasID && attr != "" && len(items) >= 2 {
				var got []string

				mod := map[string]rangeItem{}
				for id, it := range byID {
					mod[id] = it
				}

				if p := oracle.Try(func() {
					jsonapi.Range(col, argIDs, nil, argRules, uint(len(items)+1), 0)

					first, last := col.At(0), col.At(col.Len()-1)
					vf, vl := first.Get(attr), last.Get(attr)
					first.Set(attr, vl)
					last.Set(attr, vf)

					for _, pair := range [][2]any{{first.Get("id"), vl}, {last.Get("id"), vf}} {
						it := byID[pair[0].(string)]
						vals := map[string]any{}

						for k, v := range it.vals {
							vals[k] = v
						}

						vals[attr] = pair[1]
						mod[it.id] = rangeItem{id: it.id, vals: vals}
					}

					got = idsOf(jsonapi.Range(col, argIDs, nil, argRules, uint(len(items)+1), 0))
				}); p != nil {
					return fmt.Sprintf("C09 violated: Range after two members exchanged their %q %s\ncase: %s", attr, p, desc)
				}

				want := []rangeItem{}
				for _, it := range matches {
					want = append(want, mod[it.id])
				}

				sort.SliceStable(want, func(i, j int) bool { return compareByRules(&ts, rules, want[i], want[j]) < 0 })

				if !reflect.DeepEqual(got, itemIDs(want)) {
					return fmt.Sprintf("C09 violated: after the first and the last member exchanged their %q the same request gives %q, want %q\ncase: %s", attr, got, itemIDs(want), desc)
				}
			}

			return ""
		}

		if msg := verify(rules); msg != "" {
			// Recorded finding: a sorting rule on a uint64, *uint64 or *[]byte
			// attribute is ignored. The case is abandoned only if the result is
			// exactly what ignoring those rules predicts.
			kept := []string{}
			affected := false

			for _, rule := range rules {
				if a, ok := ts.Attr(strings.TrimPrefix(rule, "-")); ok && sortKindIgnored(a) {
					affected = true
					continue
				}

				kept = append(kept, rule)
			}

			if affected && verifyIgnoring(verify, kept) {
				exclude(sigSortKindIgnored)
			}

			t.Fatalf("%s", msg)
		}

		// The same filter and rules once more without the ID list (what a
		// caller does who first shows a selection and then everything): all
		// the resources the filter allows, whatever was asked before.
		if len(ids) > 0 && tree != nil {
			var all jsonapi.Collection

			if p := oracle.Try(func() {
				all = jsonapi.Range(buildCollection(impl, &ts, items), nil, argFilter, argRules, uint(len(items)+1), 0)
			}); p != nil {
				t.Fatalf("C09 violated: Range %s (same filter, no ID list)\ncase: %s", p, desc)
			}

			want := []string{}

			for _, it := range items {
				vals := map[string]any{"id": it.id}
				for k, v := range it.vals {
					vals[k] = v
				}

				if oracle.EvalFilter(tree, &ts, vals) {
					want = append(want, it.id)
				}
			}

			got := idsOf(all)
			sort.Strings(got)
			sort.Strings(want)

			if !reflect.DeepEqual(got, want) {
				t.Fatalf("C09 violated: the same filter without the ID list gives %q, the filter allows %q\ncase: %s", got, want, desc)
			}
		}

		// ... and once more after the caller wrote other values into the
		// lists of its "in" conditions (the same filter object, the same list
		// objects): the filter is read as it is now.
		if tree != nil {
			edited := false

			walkLeaves(tree, argFilter, func(n *gen.FNode, lf *jsonapi.Filter) {
				if old, ok := lf.Val.([]string); ok && n.Op == "in" && len(old) > 0 {
					none := make([]string, len(old))
					for i := range none {
						none[i] = fmt.Sprintf("zz-none-%d", i)
					}

					n.Val = none
					copy(old, none)
					edited = true
				}
			})

			if edited {
				var all jsonapi.Collection

				if p := oracle.Try(func() {
					all = jsonapi.Range(buildCollection(impl, &ts, items), nil, argFilter, argRules, uint(len(items)+1), 0)
				}); p != nil {
					t.Fatalf("C09 violated: Range %s (filter with edited in lists)\ncase: %s", p, desc)
				}

				want := []string{}

				for _, it := range items {
					vals := map[string]any{"id": it.id}
					for k, v := range it.vals {
						vals[k] = v
					}

					if oracle.EvalFilter(tree, &ts, vals) {
						want = append(want, it.id)
					}
				}

				got := idsOf(all)
				sort.Strings(got)
				sort.Strings(want)

				if !reflect.DeepEqual(got, want) {
					t.Fatalf("C09 violated: after the lists of the filter's in conditions were overwritten in place Range gives %q, the filter now allows %q\ncase: %s\nfilter now: %s", got, want, desc, tree)
				}
			}
		}

		nonID := 0
		tie := false

		for _, rule := range rules {
			if strings.TrimPrefix(rule, "-") != "id" {
				nonID++
			}
		}

		if len(rules) > 0 && strings.TrimPrefix(rules[0], "-") != "id" {
			for i := range matches {
				for j := i + 1; j < len(matches); j++ {
					if compareByRule(&ts, rules[0], matches[i], matches[j]) == 0 {
						tie = true
					}
				}

				if n, _ := gen.Deref(matches[i].vals[strings.TrimPrefix(rules[0], "-")]); n {
					tie = true
				}
			}
		}

		labels := []string{"impl:" + impl, fmt.Sprintf("matches:%d", min(len(matches), 5))}
		if len(items) > 128 {
			labels = append(labels, "members:129+")
		}

		if c09Renamed != "" && impl == "softcol" {
			labels = append(labels, "softcol:renamed-attribute")
		}

		for _, rule := range rules {
			if a, ok := ts.Attr(strings.TrimPrefix(rule, "-")); ok {
				labels = append(labels, "rule:"+gen.KindName(a.Type, a.Nullable))
			}
		}

		if nonID < len(rules) {
			labels = append(labels, "total-order")
		}

		nontrivial := len(matches) >= 3 && nonID >= 1 && (tie || (size > 0 && uint64(size) < uint64(len(matches))))
		r.Case(desc, nontrivial, labels...)
	}))
}

func showItems(items []rangeItem) string {
	parts := []string{}
	for _, it := range items {
		parts = append(parts, it.id+gen.ShowVals(it.vals))
	}

	return "[" + strings.Join(parts, " ") + "]"
}

func itemIDs(items []rangeItem) []string {
	out := []string{}
	for _, it := range items {
		out = append(out, it.id)
	}

	return out
}

func contains(l []string, s string) bool {
	for _, x := range l {
		if x == s {
			return true
		}
	}

	return false
}

func containsItem(items []rangeItem, id string) bool {
	for _, it := range items {
		if it.id == id {
			return true
		}
	}

	return false
}

func TestC09Regress(t *testing.T) {
	run := func(t *testing.T, attr jsonapi.Attr, impl string, vals []any, rules []string, size, num uint, want []string) {
		ts := gen.TypeSpec{Name: "t", Attrs: []jsonapi.Attr{attr}}
		items := []rangeItem{}

		for i, v := range vals {
			items = append(items, rangeItem{id: string(rune('a' + i)), vals: map[string]any{"a": v}})
		}

		var out jsonapi.Collection
		if p := oracle.Try(func() { out = jsonapi.Range(buildCollection(impl, &ts, items), nil, nil, rules, size, num) }); p != nil {
			t.Fatalf("C09 violated: Range %s (%s, %s, rules %q)", p, gen.KindName(attr.Type, attr.Nullable), impl, rules)
		}

		if got := idsOf(out); !reflect.DeepEqual(got, want) {
			t.Fatalf("C09 violated: %s held as %s sorted by %q, size %d: %q, want %q", gen.KindName(attr.Type, attr.Nullable), impl, rules, size, got, want)
		}
	}

	u1, u2, u3 := uint64(3), uint64(1<<63), uint64(2)
	b1, b2 := []byte{2}, []byte{1, 9}
	s1 := "x"

	// Witnesses of the recorded finding "range-sort-kind-ignored": the result is
	// either right (repaired) or exactly what ignoring the rule predicts.
	witness := func(t *testing.T, attr jsonapi.Attr, impl string, vals []any, rules []string, want, ignored []string) bool {
		ts := gen.TypeSpec{Name: "t", Attrs: []jsonapi.Attr{attr}}
		items := []rangeItem{}

		for i, v := range vals {
			items = append(items, rangeItem{id: string(rune('a' + i)), vals: map[string]any{"a": v}})
		}

		var out jsonapi.Collection
		if p := oracle.Try(func() { out = jsonapi.Range(buildCollection(impl, &ts, items), nil, nil, rules, 10, 0) }); p != nil {
			t.Fatalf("C09 violated: Range %s", p)
		}

		got := idsOf(out)

		switch {
		case reflect.DeepEqual(got, want):
			return false
		case reflect.DeepEqual(got, ignored) && kf.Known(sigSortKindIgnored):
			return true
		}

		t.Fatalf("C09 violated: %s held as %s sorted by %q: %q, want %q", gen.KindName(attr.Type, attr.Nullable), impl, rules, got, want)

		return false
	}

	t.Run("sort-kind-ignored", func(t *testing.T) {
		present := witness(t, jsonapi.Attr{Name: "a", Type: jsonapi.AttrTypeUint64}, "softcol", []any{u1, u2, u3}, []string{"a", "id"}, []string{"c", "a", "b"}, []string{"a", "b", "c"})
		present = witness(t, jsonapi.Attr{Name: "a", Type: jsonapi.AttrTypeUint64}, "wrapcol", []any{u1, u2, u3}, []string{"-a", "id"}, []string{"b", "a", "c"}, []string{"a", "b", "c"}) || present
		present = witness(t, jsonapi.Attr{Name: "a", Type: jsonapi.AttrTypeUint64, Nullable: true}, "resources-soft", []any{&u1, (*uint64)(nil), &u3}, []string{"a", "id"}, []string{"b", "c", "a"}, []string{"a", "b", "c"}) || present
		present = witness(t, jsonapi.Attr{Name: "a", Type: jsonapi.AttrTypeBytes, Nullable: true}, "softcol", []any{&b1, (*[]byte)(nil), &b2}, []string{"a", "id"}, []string{"b", "c", "a"}, []string{"a", "b", "c"}) || present

		if present {
			kf.Announce(sigSortKindIgnored)
		}
	})
	t.Run("wrapped-nil-value", func(t *testing.T) {
		run(t, jsonapi.Attr{Name: "a", Type: jsonapi.AttrTypeString, Nullable: true}, "wrapcol", []any{&s1, (*string)(nil)}, []string{"a", "id"}, 10, 0, []string{"b", "a"})
		run(t, jsonapi.Attr{Name: "a", Type: jsonapi.AttrTypeString, Nullable: true}, "resources-wrapped", []any{(*string)(nil), &s1}, []string{"-a", "id"}, 10, 0, []string{"b", "a"})
	})
	t.Run("huge-page-size", func(t *testing.T) {
		run(t, jsonapi.Attr{Name: "a", Type: jsonapi.AttrTypeInt}, "softcol", []any{1, 2}, []string{"id"}, 1<<63, 0, []string{"a", "b"})
		run(t, jsonapi.Attr{Name: "a", Type: jsonapi.AttrTypeInt}, "softcol", []any{1, 2}, []string{"id"}, math.MaxUint64, 0, []string{"a", "b"})
	})
}

package props

import (
	"fmt"
	"testing"

	"github.com/mfcochauxlaberge/jsonapi"
	"pgregory.net/rapid"

	"verif/harness/gen"
	"verif/harness/oracle"
	"verif/harness/rec"
)

// C15 — Schema.Check finds every dangling or unreciprocated relationship.

// offending is the independent predicate of C15 for one relationship of type owner.
func offending(ss *gen.SchemaSpec, owner *gen.TypeSpec, rel jsonapi.Rel) (bool, string) {
	target := ss.Type(rel.ToType)
	if target == nil {
		return true, "dangling"
	}

	if rel.ToName == "" {
		return false, ""
	}

	if rel.FromType != owner.Name {
		return true, "wrong-FromType"
	}

	for _, inv := range target.Rels {
		if inv.FromName == rel.ToName && inv.ToName == rel.FromName {
			return false, ""
		}
	}

	return true, "unreciprocated"
}

func checkOracle(ss *gen.SchemaSpec) (msg string, nOffending int, faults map[string]int) {
	faults = map[string]int{}

	for i := range ss.Types {
		for _, rel := range ss.Types[i].Rels {
			if bad, why := offending(ss, &ss.Types[i], rel); bad {
				nOffending++
				faults[why]++
			}
		}
	}

	before := oracle.SnapshotSchema(ss.Schema)

	var errs []error
	if p := oracle.Try(func() { errs = ss.Schema.Check() }); p != nil {
		return "Check " + p.String(), nOffending, faults
	}

	if after := oracle.SnapshotSchema(ss.Schema); after != before {
		return fmt.Sprintf("Check modified the schema\nbefore: %s\nafter:  %s", before, after), nOffending, faults
	}

	if (len(errs) == 0) != (nOffending == 0) {
		return fmt.Sprintf("Check returned %d errors %v, %d relationships offend (%v)", len(errs), errs, nOffending, faults), nOffending, faults
	}

	if len(errs) < nOffending {
		return fmt.Sprintf("Check returned %d errors %v for %d offending relationships (%v)", len(errs), errs, nOffending, faults), nOffending, faults
	}

	for _, e := range errs {
		if e == nil {
			return "Check returned a nil error in its list", nOffending, faults
		}
	}

	return "", nOffending, faults
}

func TestC15Check(t *testing.T) {
	r := rec.For("C15Check")

	rapid.Check(t, prop(r, func(t *rapid.T) {
		ss := gen.IncoherentSchema(t)

		msg, n, faults := checkOracle(ss)
		if msg != "" {
			t.Fatalf("C15 violated: %s\nschema: %s", msg, ss)
		}

		twoWay := 0

		for i := range ss.Types {
			for _, rel := range ss.Types[i].Rels {
				if rel.ToName != "" {
					twoWay++
				}
			}
		}

		labels := []string{fmt.Sprintf("types:%d", len(ss.Types))}
		if n == 0 {
			labels = append(labels, "coherent")
		}

		for _, k := range gen.SortedKeys(faults) {
			labels = append(labels, "fault:"+k)
		}

		r.Case(ss.String(), len(ss.Types) >= 2 && twoWay >= 1, labels...)
	}))
}

func TestC15Regress(t *testing.T) {
	for name, specs := range map[string][]gen.TypeSpec{
		"dangling-with-inverse-named": {{Name: "a", Rels: []jsonapi.Rel{{FromType: "a", FromName: "r", ToType: "ghost", ToName: "s"}}}},
		"second-relationship-offends": {
			{Name: "a", Rels: []jsonapi.Rel{{FromType: "a", FromName: "ok", ToType: "b"}, {FromType: "a", FromName: "r", ToType: "b", ToName: "nope"}}},
			{Name: "b"},
		},
		"wrong-from-type": {
			{Name: "a", Rels: []jsonapi.Rel{{FromType: "b", FromName: "r", ToType: "b", ToName: "s"}}},
			{Name: "b", Rels: []jsonapi.Rel{{FromType: "b", FromName: "s", ToType: "a", ToName: "r"}}},
		},
		"coherent": {
			{Name: "a", Rels: []jsonapi.Rel{{FromType: "a", FromName: "r", ToType: "b", ToName: "s"}, {FromType: "a", FromName: "self", ToType: "a", ToName: "self", ToOne: true, FromOne: true}}},
			{Name: "b", Rels: []jsonapi.Rel{{FromType: "b", FromName: "s", ToType: "a", ToName: "r"}}},
		},
	} {
		ss := gen.BuildSchema(specs)
		if msg, _, _ := checkOracle(ss); msg != "" {
			t.Fatalf("C15 violated (%s): %s\nschema: %s", name, msg, ss)
		}
	}
}

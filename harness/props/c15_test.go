package props

import (
	"fmt"
	"testing"

	"github.com/mfcochauxlaberge/jsonapi"
	"pgregory.net/rapid"

	"verif/harness/gen"
	"verif/harness/oracle"
	"verif/harness/rec"
)

// C15 — Schema.Check finds every dangling or unreciprocated relationship.

// offending is the independent predicate of C15 for one relationship of type owner.
func offending(ss *gen.SchemaSpec, owner *gen.TypeSpec, rel jsonapi.Rel) (bool, string) {
	target := ss.Type(rel.ToType)
	if target == nil {
		return true, "dangling"
	}

	if rel.ToName == "" {
		return false, ""
	}

	if rel.FromType != owner.Name {
		return true, "wrong-FromType"
	}

	for _, inv := range target.Rels {
		if inv.FromName == rel.ToName && inv.ToName == rel.FromName {
			return false, ""
		}
	}

	return true, "unreciprocated"
}

func checkOracle(ss *gen.SchemaSpec) (msg string, nOffending int, faults map[string]int) {
	faults = map[string]int{}

	for i := range ss.Types {
		for _, rel := range ss.Types[i].Rels {
			if bad, why := offending(ss, &ss.Types[i], rel); bad {
				nOffending++
				faults[why]++
			}
		}
	}

	before := oracle.SnapshotSchema(ss.Schema)

	var errs []error
	if p := oracle.Try(func() { errs = ss.Schema.Check() }); p != nil {
		return "Check " + p.String(), nOffending, faults
	}

	if after := oracle.SnapshotSchema(ss.Schema); after != before {
		return fmt.Sprintf("Check modified the schema\nbefore: %s\nafter:  %s", before, after), nOffending, faults
	}

	if (len(errs) == 0) != (nOffending == 0) {
		return fmt.Sprintf("Check returned %d errors %v, %d relationships offend (%v)", len(errs), errs, nOffending, faults), nOffending, faults
	}

	if len(errs) < nOffending {
		return fmt.Sprintf("Check returned %d errors %v for %d offending relationships (%v)", len(errs), errs, nOffending, faults), nOffending, faults
	}

	for _, e := range errs {
		if e == nil {
			return "Check returned a nil error in its list", nOffending, faults
		}
	}

	return "", nOffending, faults
}

func TestC15Check(t *testing.T) {
	r := rec.For("C15Check")

	rapid.Check(t, prop(r, func(t *rapid.T) {
		ss := gen.IncoherentSchema(t)

		msg, n, faults := checkOracle(ss)
		if msg != "" {
			t.Fatalf("C15 violated: %s\nschema: %s", msg, ss)
		}

		// The same question for a schema with a past: a reciprocated pair is
		// taken out, put back through AddTwoWayRel, and then loses one of its
		// ends to RemoveRel. What Check says depends on what the schema holds
		// now, not on how it got there.
		type end struct {
			typ int
			rel jsonapi.Rel
		}

		pairs := [][2]end{}

		for i := range ss.Types {
			for _, x := range ss.Types[i].Rels {
				if x.ToName == "" || x.FromType != ss.Types[i].Name {
					continue
				}

				for j := range ss.Types {
					if ss.Types[j].Name != x.ToType {
						continue
					}

					for _, y := range ss.Types[j].Rels {
						if y.FromName == x.ToName && y.FromType == ss.Types[j].Name && y.ToType == x.FromType && y.ToName == x.FromName && !(i == j && x.FromName == y.FromName) {
							pairs = append(pairs, [2]end{{i, x}, {j, y}})
						}
					}
				}
			}
		}

		if len(pairs) > 0 {
			pr := pairs[rapid.IntRange(0, len(pairs)-1).Draw(t, "edited-pair")]
			x, y := pr[0].rel, pr[1].rel

			specs := make([]gen.TypeSpec, len(ss.Types))
			for i := range ss.Types {
				specs[i] = ss.Types[i]
				specs[i].Rels = append([]jsonapi.Rel{}, ss.Types[i].Rels...)
			}

			ss2 := gen.BuildSchema(specs)

			var err error

			if p := oracle.Try(func() {
				ss2.Schema.RemoveRel(x.FromType, x.FromName)
				ss2.Schema.RemoveRel(y.FromType, y.FromName)
				err = ss2.Schema.AddTwoWayRel(x)
				ss2.Schema.RemoveRel(y.FromType, y.FromName)
			}); p != nil {
				t.Fatalf("C15 violated: editing the schema %s\nschema: %s", p, ss)
			}

			if err == nil {
				// (AddTwoWayRel writes the pair as it sees fit - FromOne of the
				// inverse - so the description follows the schema for x)
				for k, rel := range ss2.Types[pr[0].typ].Rels {
					if rel.FromName == x.FromName {
						ss2.Types[pr[0].typ].Rels[k] = ss2.Schema.GetType(x.FromType).Rels[x.FromName]
					}
				}

				kept := []jsonapi.Rel{}
				for _, rel := range ss2.Types[pr[1].typ].Rels {
					if rel.FromName != y.FromName {
						kept = append(kept, rel)
					}
				}

				ss2.Types[pr[1].typ].Rels = kept

				if msg, _, _ := checkOracle(ss2); msg != "" {
					t.Fatalf("C15 violated: %s\nschema (after %s was put back with AddTwoWayRel and %s.%s removed again): %s", msg, gen.RelString(x), y.FromType, y.FromName, ss2)
				}
			}
		}

		// And for a schema that grew: the types added one at a time without
		// their relationships, looked up now and then on the way, the
		// relationships added afterwards (a sound pair through AddTwoWayRel,
		// the others one end at a time). Whatever an edit refuses is left out;
		// the question is asked about what the schema holds in the end.
		if rapid.IntRange(0, 2).Draw(t, "grown") == 0 {
			g := &jsonapi.Schema{}
			look := func(label string) {
				if len(g.Types) == 0 {
					return
				}

				name := g.Types[rapid.IntRange(0, len(g.Types)-1).Draw(t, label+"-which")].Name

				switch rapid.IntRange(0, 4).Draw(t, label) {
				case 0:
					_ = g.HasType(name)
				case 1:
					_ = g.GetType(name)
				case 2:
					_ = g.Check()
				case 3:
					_ = g.HasType(name + "x")
				}
			}

			if p := oracle.Try(func() {
				for i := range ss.Types {
					typ := jsonapi.Type{Name: ss.Types[i].Name}
					for _, a := range ss.Types[i].Attrs {
						_ = typ.AddAttr(a)
					}

					_ = g.AddType(typ)
					look("grown-look")
				}

				done := map[string]bool{}
				paired := map[string]jsonapi.Rel{}

				for _, pr := range pairs {
					paired[pr[0].rel.FromType+" "+pr[0].rel.FromName] = pr[0].rel
				}

				for i := range ss.Types {
					for _, rel := range ss.Types[i].Rels {
						key := ss.Types[i].Name + " " + rel.FromName
						if done[key] {
							continue
						}

						if x, ok := paired[key]; ok && rapid.Bool().Draw(t, "grown-twoway") {
							if g.AddTwoWayRel(x) == nil {
								done[key], done[x.ToType+" "+x.ToName] = true, true
							}

							continue
						}

						_ = g.AddRel(ss.Types[i].Name, rel)
						done[key] = true

						if rapid.IntRange(0, 3).Draw(t, "grown-look-between") == 0 {
							look("grown-look2")
						}
					}
				}
			}); p != nil {
				t.Fatalf("C15 violated: growing the schema %s\nschema: %s", p, ss)
			}

			specs := make([]gen.TypeSpec, len(g.Types))
			for i := range g.Types {
				specs[i].Name = g.Types[i].Name

				for _, k := range gen.SortedKeys(g.Types[i].Attrs) {
					specs[i].Attrs = append(specs[i].Attrs, g.Types[i].Attrs[k])
				}

				for _, k := range gen.SortedKeys(g.Types[i].Rels) {
					specs[i].Rels = append(specs[i].Rels, g.Types[i].Rels[k])
				}
			}

			ss3 := &gen.SchemaSpec{Types: specs, Schema: g}
			if msg, _, _ := checkOracle(ss3); msg != "" {
				t.Fatalf("C15 violated: %s\nschema (grown type by type, relationships added afterwards): %s", msg, ss3)
			}

			r.Label("grown")
		}

		twoWay := 0

		for i := range ss.Types {
			for _, rel := range ss.Types[i].Rels {
				if rel.ToName != "" {
					twoWay++
				}
			}
		}

		labels := []string{fmt.Sprintf("types:%d", len(ss.Types))}
		if n == 0 {
			labels = append(labels, "coherent")
		}

		for _, k := range gen.SortedKeys(faults) {
			labels = append(labels, "fault:"+k)
		}

		r.Case(ss.String(), len(ss.Types) >= 2 && twoWay >= 1, labels...)
	}))
}

func TestC15Regress(t *testing.T) {
	for name, specs := range map[string][]gen.TypeSpec{
		"dangling-with-inverse-named": {{Name: "a", Rels: []jsonapi.Rel{{FromType: "a", FromName: "r", ToType: "ghost", ToName: "s"}}}},
		"second-relationship-offends": {
			{Name: "a", Rels: []jsonapi.Rel{{FromType: "a", FromName: "ok", ToType: "b"}, {FromType: "a", FromName: "r", ToType: "b", ToName: "nope"}}},
			{Name: "b"},
		},
		"wrong-from-type": {
			{Name: "a", Rels: []jsonapi.Rel{{FromType: "b", FromName: "r", ToType: "b", ToName: "s"}}},
			{Name: "b", Rels: []jsonapi.Rel{{FromType: "b", FromName: "s", ToType: "a", ToName: "r"}}},
		},
		"coherent": {
			{Name: "a", Rels: []jsonapi.Rel{{FromType: "a", FromName: "r", ToType: "b", ToName: "s"}, {FromType: "a", FromName: "self", ToType: "a", ToName: "self", ToOne: true, FromOne: true}}},
			{Name: "b", Rels: []jsonapi.Rel{{FromType: "b", FromName: "s", ToType: "a", ToName: "r"}}},
		},
	} {
		ss := gen.BuildSchema(specs)
		if msg, _, _ := checkOracle(ss); msg != "" {
			t.Fatalf("C15 violated (%s): %s\nschema: %s", name, msg, ss)
		}
	}
}

package props

import (
	"fmt"
	"math"
	"strings"
	"testing"

	"github.com/mfcochauxlaberge/jsonapi"
	"pgregory.net/rapid"

	"verif/harness/gen"
	"verif/harness/kf"
	"verif/harness/oracle"
	"verif/harness/rec"
)

// C14 — schema editing keeps the schema well-formed and is all-or-nothing.

type mType struct {
	name  string
	attrs map[string]jsonapi.Attr
	rels  map[string]jsonapi.Rel
}

type mSchema struct{ types []*mType }

func (m *mSchema) find(name string) *mType {
	for _, t := range m.types {
		if t.name == name {
			return t
		}
	}

	return nil
}

func (m *mSchema) snapshot() string {
	parts := []string{}

	for _, t := range m.types {
		var b strings.Builder

		fmt.Fprintf(&b, "%q attrs[", t.name)

		for _, n := range gen.SortedKeys(t.attrs) {
			a := t.attrs[n]
			fmt.Fprintf(&b, "%q:{%q %d %v} ", n, a.Name, a.Type, a.Nullable)
		}

		b.WriteString("] rels[")

		for _, n := range gen.SortedKeys(t.rels) {
			r := t.rels[n]
			fmt.Fprintf(&b, "%q:{%q %q %v %q %q %v} ", n, r.FromType, r.FromName, r.ToOne, r.ToType, r.ToName, r.FromOne)
		}

		b.WriteString("]")
		parts = append(parts, b.String())
	}

	return strings.Join(parts, " | ")
}

// libSnapshot renders the library schema in the same form as mSchema.snapshot
// (nil and empty maps are the same thing here).
func libSnapshot(s *jsonapi.Schema) string {
	parts := []string{}

	for _, t := range s.Types {
		var b strings.Builder

		fmt.Fprintf(&b, "%q attrs[", t.Name)

		for _, n := range gen.SortedKeys(t.Attrs) {
			a := t.Attrs[n]
			fmt.Fprintf(&b, "%q:{%q %d %v} ", n, a.Name, a.Type, a.Nullable)
		}

		b.WriteString("] rels[")

		for _, n := range gen.SortedKeys(t.Rels) {
			r := t.Rels[n]
			fmt.Fprintf(&b, "%q:{%q %q %v %q %q %v} ", n, r.FromType, r.FromName, r.ToOne, r.ToType, r.ToName, r.FromOne)
		}

		b.WriteString("]")
		parts = append(parts, b.String())
	}

	return strings.Join(parts, " | ")
}

var validKind = map[int]bool{}

func init() {
	for _, k := range gen.Kinds {
		validKind[k] = true
	}
}

// invariants checks the well-formedness clauses of C14 on the library schema.
func invariants(s *jsonapi.Schema, pool []string) string {
	seen := map[string]bool{}

	for i, t := range s.Types {
		if t.Name == "" {
			return fmt.Sprintf("type #%d has an empty name", i)
		}

		if seen[t.Name] {
			return fmt.Sprintf("type name %q is used twice", t.Name)
		}

		seen[t.Name] = true

		an := map[string]bool{}

		for k, a := range t.Attrs {
			if a.Name == "" || k != a.Name || an[a.Name] {
				return fmt.Sprintf("type %q: attribute key %q holds name %q", t.Name, k, a.Name)
			}

			an[a.Name] = true

			if !validKind[a.Type] {
				return fmt.Sprintf("type %q: attribute %q has the invalid kind %d", t.Name, a.Name, a.Type)
			}
		}

		for k, r := range t.Rels {
			if r.FromName == "" || k != r.FromName {
				return fmt.Sprintf("type %q: relationship key %q holds name %q", t.Name, k, r.FromName)
			}

			if r.ToType == "" {
				return fmt.Sprintf("type %q: relationship %q has an empty target type", t.Name, r.FromName)
			}
		}
	}

	for _, n := range pool {
		has := s.HasType(n)
		got := s.GetType(n)

		if has != seen[n] {
			return fmt.Sprintf("HasType(%q) = %v but the list of types says %v", n, has, seen[n])
		}

		if seen[n] && got.Name != n {
			return fmt.Sprintf("GetType(%q) returned type %q", n, got.Name)
		}

		if !seen[n] && n != "" && got.Name != "" {
			return fmt.Sprintf("GetType(%q) returned type %q for an absent type", n, got.Name)
		}
	}

	return ""
}

const sigC14 = "unused"

// invalidKinds: no kind at all, the integers next to the valid range, far ones
// and the extremes.
var invalidKinds = []int{jsonapi.AttrTypeInvalid, jsonapi.AttrTypeBytes + 1, jsonapi.AttrTypeBytes + 2, 99, -1, -2, math.MaxInt32, math.MinInt64, math.MaxInt64}

func TestC14Edits(t *testing.T) {
	r := rec.For("C14Edits")

	rapid.Check(t, prop(r, func(t *rapid.T) {
		schema := &jsonapi.Schema{}
		model := &mSchema{}

		typePool := []string{"a", "b", "ab", "c", "", "a_b", "a-b", "A", "aB"} // names are case-sensitive
		attrPool := []string{"x", "y", "xy", "r", "", "prix€"}
		relPool := []string{"r", "s", "rs", "a_b", "x", "", "m²", "b_r"}

		// (the last pair that was added: a later pair may read the same once
		// its four names are joined with underscores - a + b_r against a_b + r)
		var lastPair *jsonapi.Rel

		history := []string{}
		failedEdits, nonLastRemovals, twoWayNonNormal := 0, 0, 0

		drawRel := func(label string) jsonapi.Rel {
			return jsonapi.Rel{
				FromType: rapid.SampledFrom(typePool).Draw(t, label+"-ft"),
				FromName: rapid.SampledFrom(relPool).Draw(t, label+"-fn"),
				ToOne:    rapid.Bool().Draw(t, label+"-to1"),
				ToType:   rapid.SampledFrom(typePool).Draw(t, label+"-tt"),
				ToName:   rapid.SampledFrom(relPool).Draw(t, label+"-tn"),
				FromOne:  rapid.Bool().Draw(t, label+"-from1"),
			}
		}

		// step runs one edit on the library, compares with what the model
		// expects (wantErr: the edit must fail) and checks all-or-nothing.
		// crossKind: the edit uses a name that exists as the other kind of field
		// in that type. The statement does not say whether attributes and
		// relationships share one namespace, so the edit may succeed or fail;
		// either way it must be all-or-nothing and the schema must equal the
		// model afterwards.
		crossKind := false

		step := func(desc string, wantErr bool, call func() error, apply func()) {
			history = append(history, desc)
			before := libSnapshot(schema)
			strictBefore := oracle.SnapshotSchema(schema)

			var err error
			if p := oracle.Try(func() { err = call() }); p != nil {
				t.Fatalf("C14 violated: %s %s\nhistory: %s\nschema before: %s", desc, p, strings.Join(history, "; "), before)
			}

			if err != nil {
				failedEdits++

				if after := libSnapshot(schema); after != before {
					t.Fatalf("C14 violated: %s returned the error %q but changed the schema\nbefore: %s\nafter:  %s\nhistory: %s", desc, err, before, after, strings.Join(history, "; "))
				}

				// "Exactly as it was": also what the library's own Type.Equal
				// tells apart (a nil map from an empty one, a constructor).
				if after := oracle.SnapshotSchema(schema); after != strictBefore {
					t.Fatalf("C14 violated: %s returned the error %q but changed the schema (in a way Type.Equal can tell)\nbefore: %s\nafter:  %s\nhistory: %s", desc, err, strictBefore, after, strings.Join(history, "; "))
				}
			}

			if wantErr && err == nil {
				t.Fatalf("C14 violated: %s succeeded although it cannot keep the schema well-formed\nschema after: %s\nhistory: %s", desc, libSnapshot(schema), strings.Join(history, "; "))
			}

			if !wantErr && err != nil && !crossKind {
				t.Fatalf("C14 violated: %s failed with %q although it is valid\nschema: %s\nhistory: %s", desc, err, before, strings.Join(history, "; "))
			}

			crossKind = false

			if err == nil {
				apply()
			}
		}

		t.Repeat(map[string]func(*rapid.T){
			"AddType": func(t *rapid.T) {
				name := rapid.SampledFrom(typePool).Draw(t, "name")
				typ := jsonapi.Type{Name: name}
				mt := &mType{name: name, attrs: map[string]jsonapi.Attr{}, rels: map[string]jsonapi.Rel{}}

				for i := rapid.IntRange(0, 2).Draw(t, "nattrs"); i > 0; i-- {
					an := rapid.SampledFrom(attrPool[:3]).Draw(t, "aname")
					a := jsonapi.Attr{Name: an, Type: rapid.SampledFrom(gen.Kinds).Draw(t, "kind"), Nullable: rapid.Bool().Draw(t, "nullable")}

					if typ.Attrs == nil {
						typ.Attrs = map[string]jsonapi.Attr{}
					}

					typ.Attrs[an] = a
					mt.attrs[an] = a
				}

				for i := rapid.IntRange(0, 2).Draw(t, "nrels"); i > 0; i-- {
					rel := drawRel("rel")
					if rel.FromName == "" || rel.ToType == "" {
						continue
					}

					if _, clash := mt.attrs[rel.FromName]; clash {
						continue
					}

					rel.FromType = name

					if typ.Rels == nil {
						typ.Rels = map[string]jsonapi.Rel{}
					}

					typ.Rels[rel.FromName] = rel
					mt.rels[rel.FromName] = rel
				}

				wantErr := name == "" || model.find(name) != nil
				step(fmt.Sprintf("AddType(%q with %d attrs, %d rels)", name, len(mt.attrs), len(mt.rels)), wantErr,
					func() error { return schema.AddType(typ) }, func() { model.types = append(model.types, mt) })
			},
			"RemoveType": func(t *rapid.T) {
				name := rapid.SampledFrom(typePool).Draw(t, "name")
				if len(model.types) > 0 && rapid.Bool().Draw(t, "existing") {
					name = model.types[rapid.IntRange(0, len(model.types)-1).Draw(t, "idx")].name
				}

				for i, mt := range model.types {
					if mt.name == name && i < len(model.types)-1 {
						nonLastRemovals++
					}
				}

				step(fmt.Sprintf("RemoveType(%q)", name), false, func() error { schema.RemoveType(name); return nil }, func() {
					for i, mt := range model.types {
						if mt.name == name {
							model.types = append(model.types[:i:i], model.types[i+1:]...)
							break
						}
					}
				})
			},
			"AddAttr": func(t *rapid.T) {
				tn := rapid.SampledFrom(typePool).Draw(t, "type")
				a := jsonapi.Attr{Name: rapid.SampledFrom(attrPool).Draw(t, "name"), Nullable: rapid.Bool().Draw(t, "nullable")}
				a.Type = rapid.SampledFrom(gen.Kinds).Draw(t, "kind")
				if rapid.IntRange(0, 5).Draw(t, "badkind") == 0 {
					a.Type = rapid.SampledFrom(invalidKinds).Draw(t, "invalidkind")
				}

				mt := model.find(tn)
				wantErr := mt == nil || a.Name == "" || !validKind[a.Type]

				if mt != nil {
					if _, dup := mt.attrs[a.Name]; dup {
						wantErr = true
					}

					if _, cross := mt.rels[a.Name]; cross {
						crossKind = true
					}
				}

				step(fmt.Sprintf("AddAttr(%q, {%q %d %v})", tn, a.Name, a.Type, a.Nullable), wantErr,
					func() error { return schema.AddAttr(tn, a) }, func() { mt.attrs[a.Name] = a })
			},
			"RemoveAttr": func(t *rapid.T) {
				tn := rapid.SampledFrom(typePool).Draw(t, "type")
				// also names that only exist as relationships: removing an
				// absent attribute must not touch them
				an := rapid.SampledFrom(append(append([]string{}, attrPool...), relPool...)).Draw(t, "name")

				step(fmt.Sprintf("RemoveAttr(%q, %q)", tn, an), false, func() error { schema.RemoveAttr(tn, an); return nil }, func() {
					if mt := model.find(tn); mt != nil {
						delete(mt.attrs, an)
					}
				})
			},
			"AddRel": func(t *rapid.T) {
				tn := rapid.SampledFrom(typePool).Draw(t, "type")
				rel := drawRel("rel")

				mt := model.find(tn)
				wantErr := mt == nil || rel.FromName == "" || rel.ToType == ""

				if mt != nil {
					if _, dup := mt.rels[rel.FromName]; dup {
						wantErr = true
					}

					if _, cross := mt.attrs[rel.FromName]; cross {
						crossKind = true
					}
				}

				step(fmt.Sprintf("AddRel(%q, %s)", tn, relDesc(rel)), wantErr,
					func() error { return schema.AddRel(tn, rel) }, func() { mt.rels[rel.FromName] = rel })
			},
			"RemoveRel": func(t *rapid.T) {
				tn := rapid.SampledFrom(typePool).Draw(t, "type")
				rn := rapid.SampledFrom(append(append([]string{}, relPool...), attrPool...)).Draw(t, "name")

				step(fmt.Sprintf("RemoveRel(%q, %q)", tn, rn), false, func() error { schema.RemoveRel(tn, rn); return nil }, func() {
					if mt := model.find(tn); mt != nil {
						delete(mt.rels, rn)
					}
				})
			},
			"AddTwoWayRel": func(t *rapid.T) {
				rel := drawRel("rel")

				if len(model.types) > 0 && rapid.Bool().Draw(t, "existingTypes") {
					rel.FromType = model.types[rapid.IntRange(0, len(model.types)-1).Draw(t, "ia")].name
					rel.ToType = model.types[rapid.IntRange(0, len(model.types)-1).Draw(t, "ib")].name
				}

				// Names chosen so that "type, separator, name" reads the same
				// on both ends although the ends differ (a + _ + b_r against
				// a_b + _ + r): two ends are the same only if both parts are.
				if rapid.IntRange(0, 3).Draw(t, "concat") == 0 {
					for _, sep := range []string{"_", "", "-", "."} {
						if x := strings.TrimPrefix(rel.ToType, rel.FromType+sep); x != rel.ToType && x != "" && rel.ToName != "" {
							rel.FromName = x + sep + rel.ToName
							break
						}

						if x := strings.TrimPrefix(rel.FromType, rel.ToType+sep); x != rel.FromType && x != "" && rel.FromName != "" {
							rel.ToName = x + sep + rel.FromName
							break
						}
					}
				}

				if lastPair != nil && rapid.IntRange(0, 3).Draw(t, "alias") == 0 {
					alias := func(typ, name string) (string, string) {
						switch {
						case typ == "a" && strings.HasPrefix(name, "b_"):
							return "a_b", strings.TrimPrefix(name, "b_")
						case typ == "a_b":
							return "a", "b_" + name
						}

						return typ, name
					}

					rel = *lastPair
					if rapid.Bool().Draw(t, "alias-to-side") {
						rel.ToType, rel.ToName = alias(rel.ToType, rel.ToName)
					} else {
						rel.FromType, rel.FromName = alias(rel.FromType, rel.FromName)
					}
				}

				if rel.FromType == rel.ToType && rel.FromName == rel.ToName {
					t.Skip("a relationship that is its own inverse is outside the domain")
				}

				a, b := model.find(rel.FromType), model.find(rel.ToType)
				wantErr := a == nil || b == nil || rel.FromName == "" || rel.ToName == "" || rel.FromType == "" || rel.ToType == ""

				if a != nil {
					if _, taken := a.rels[rel.FromName]; taken {
						wantErr = true
					}
				}

				if b != nil {
					if _, taken := b.rels[rel.ToName]; taken {
						wantErr = true
					}
				}

				if a != nil {
					if _, cross := a.attrs[rel.FromName]; cross {
						crossKind = true
					}
				}

				if b != nil {
					if _, cross := b.attrs[rel.ToName]; cross {
						crossKind = true
					}
				}

				norm := rel.Normalize()
				if !wantErr && norm != rel {
					twoWayNonNormal++
				}

				step(fmt.Sprintf("AddTwoWayRel(%s)", relDesc(rel)), wantErr, func() error { return schema.AddTwoWayRel(rel) }, func() {
					a.rels[rel.FromName] = rel
					b.rels[rel.ToName] = rel.Invert()
					kept := rel
					lastPair = &kept
				})
			},
			"": func(t *rapid.T) {
				if lib, mod := libSnapshot(schema), model.snapshot(); lib != mod {
					t.Fatalf("C14 violated: the schema differs from the reference model\nschema: %s\nmodel:  %s\nhistory: %s", lib, mod, strings.Join(history, "; "))
				}

				// Lookups are not made after every edit: what they answer must
				// not depend on whether somebody asked between two edits.
				if rapid.IntRange(0, 2).Draw(t, "lookup") == 0 {
					history = append(history, "(no lookup)")
					return
				}

				var msg string
				if p := oracle.Try(func() { msg = invariants(schema, typePool) }); p != nil {
					t.Fatalf("C14 violated: lookups %s\nhistory: %s", p, strings.Join(history, "; "))
				}

				if msg != "" {
					t.Fatalf("C14 violated: %s\nschema: %s\nhistory: %s", msg, libSnapshot(schema), strings.Join(history, "; "))
				}
			},
		})

		labels := []string{fmt.Sprintf("steps:%d", min(len(history)/10*10, 50))}
		if failedEdits > 0 {
			labels = append(labels, "failed-edit")
		}

		if nonLastRemovals > 0 {
			labels = append(labels, "non-last-removal")
		}

		if twoWayNonNormal > 0 {
			labels = append(labels, "two-way-not-normalised")
		}

		r.Case(strings.Join(history, "; "), failedEdits > 0 || nonLastRemovals > 0 || twoWayNonNormal > 0, labels...)
	}))

	_ = kf.Known
}

func TestC14Regress(t *testing.T) {
	mk := func(names ...string) *jsonapi.Schema {
		s := &jsonapi.Schema{}
		for _, n := range names {
			if err := s.AddType(jsonapi.Type{Name: n}); err != nil {
				t.Fatal(err)
			}
		}

		return s
	}

	t.Run("remove-first-and-middle-type", func(t *testing.T) {
		for _, victim := range []string{"a", "b"} {
			s := mk("a", "b", "c")
			if p := oracle.Try(func() { s.RemoveType(victim) }); p != nil {
				t.Fatalf("C14 violated: RemoveType(%q) %s", victim, p)
			}

			if len(s.Types) != 2 || s.HasType(victim) {
				t.Fatalf("C14 violated: after RemoveType(%q): %s", victim, libSnapshot(s))
			}
		}
	})

	t.Run("invalid-kind-nullable", func(t *testing.T) {
		s := mk("a")
		for _, k := range invalidKinds {
			if err := s.AddAttr("a", jsonapi.Attr{Name: "x", Type: k, Nullable: true}); err == nil {
				t.Fatalf("C14 violated: attribute of invalid kind %d accepted when Nullable is set", k)
			}
		}
	})

	t.Run("two-way-rel", func(t *testing.T) {
		for _, rel := range []jsonapi.Rel{
			{FromType: "b", FromName: "r", ToOne: true, ToType: "a", ToName: "s"},  // not normalised
			{FromType: "a", FromName: "r", ToOne: true, ToType: "b", ToName: "s"},  // normalised
			{FromType: "a", FromName: "s", ToOne: true, ToType: "a", ToName: "r"},  // one type, not normalised
			{FromType: "a", FromName: "r", ToOne: false, ToType: "a", ToName: "s"}, // one type
		} {
			s := mk("a", "b")
			if err := s.AddTwoWayRel(rel); err != nil {
				t.Fatalf("C14 violated: AddTwoWayRel(%s): %v", relDesc(rel), err)
			}

			from, to := s.GetType(rel.FromType), s.GetType(rel.ToType)
			if from.Rels[rel.FromName] != rel || to.Rels[rel.ToName] != rel.Invert() {
				t.Fatalf("C14 violated: after AddTwoWayRel(%s): %s", relDesc(rel), libSnapshot(s))
			}
		}
	})

	t.Run("two-way-rel-all-or-nothing", func(t *testing.T) {
		s := mk("a")
		before := libSnapshot(s)

		if err := s.AddTwoWayRel(jsonapi.Rel{FromType: "a", FromName: "r", ToType: "ghost", ToName: "s"}); err == nil || libSnapshot(s) != before {
			t.Fatalf("C14 violated: two-way relationship to a missing type: err=%v, schema %s", err, libSnapshot(s))
		}

		s = mk("a", "b")
		_ = s.AddRel("b", jsonapi.Rel{FromType: "b", FromName: "s", ToType: "a"})
		before = libSnapshot(s)

		if err := s.AddTwoWayRel(jsonapi.Rel{FromType: "a", FromName: "r", ToType: "b", ToName: "s"}); err == nil || libSnapshot(s) != before {
			t.Fatalf("C14 violated: two-way relationship with a taken name: err=%v, schema %s (before %s)", err, libSnapshot(s), before)
		}
	})
}

package props

import (
	"fmt"
	"math"
	"reflect"
	"sort"
	"strings"
	"testing"
	"time"

	"github.com/mfcochauxlaberge/jsonapi"
	"pgregory.net/rapid"

	"verif/harness/gen"
	"verif/harness/oracle"
	"verif/harness/rec"
)

// C10 — filters evaluate according to their logical and comparison semantics.

// filterType draws a type for filter and range tests: 1..maxAttrs attributes
// over all kinds plus optionally a to-one and a to-many relationship.
func filterType(t *rapid.T, maxAttrs int, withRels bool) gen.TypeSpec {
	return filterTypeWide(t, maxAttrs, withRels, 150)
}

// filterTypeWide: one type in wideOneIn has more than 64 fields.
func filterTypeWide(t *rapid.T, maxAttrs int, withRels bool, wideOneIn int) gen.TypeSpec {
	ts := gen.TypeSpec{Name: "t", IDPos: rapid.IntRange(0, 3).Draw(t, "idpos"), EmbedID: rapid.IntRange(0, 4).Draw(t, "embedid") == 0, NamedID: rapid.IntRange(0, 5).Draw(t, "namedid") == 0}
	ts.EmbedExtra = rapid.IntRange(0, 5).Draw(t, "embedextra") == 0
	ts.Shadow = rapid.IntRange(0, 5).Draw(t, "shadow") == 0
	n := rapid.IntRange(1, maxAttrs).Draw(t, "nattrs")

	// Now and then more than 64 fields.
	// (rapid favours the ends of a range: a value in the middle is rare.)
	if rapid.IntRange(1, wideOneIn).Draw(t, "wide") == wideOneIn*2/3 {
		n = rapid.IntRange(62, 72).Draw(t, "wide-n")
	}

	for i := 0; i < n; i++ {
		ts.Attrs = append(ts.Attrs, jsonapi.Attr{
			Name:     fmt.Sprintf(map[bool]string{false: "a%d", true: "a%02d"}[n > 10], i),
			Type:     rapid.SampledFrom(gen.Kinds).Draw(t, "kind"),
			Nullable: rapid.Bool().Draw(t, "nullable"),
		})
	}

	// ID, Id and iD are field names like any other (only id is reserved).
	if n <= 10 && rapid.IntRange(0, 9).Draw(t, "idlike") == 0 {
		ts.Attrs = append(ts.Attrs, jsonapi.Attr{
			Name:     rapid.SampledFrom([]string{"ID", "Id", "iD"}).Draw(t, "idlike-name"),
			Type:     rapid.SampledFrom(gen.Kinds).Draw(t, "idlike-kind"),
			Nullable: rapid.Bool().Draw(t, "idlike-nullable"),
		})
		sort.Slice(ts.Attrs, func(a, b int) bool { return ts.Attrs[a].Name < ts.Attrs[b].Name })
	}

	// Two names that differ by letter case only are two names.
	casetwinOf := -1

	if n <= 10 && rapid.IntRange(0, 7).Draw(t, "casetwin") == 0 {
		casetwinOf = rapid.IntRange(0, n-1).Draw(t, "casetwin-of")

		for _, a := range ts.Attrs {
			if a.Name == strings.ToUpper(ts.Attrs[casetwinOf].Name) {
				// (already there: an ID-like name, or the name has no lower-case letter)
				casetwinOf = -1
				break
			}
		}
	}

	if i := casetwinOf; i >= 0 {
		ts.Attrs = append(ts.Attrs, jsonapi.Attr{
			Name:     strings.ToUpper(ts.Attrs[i].Name),
			Type:     rapid.SampledFrom([]int{ts.Attrs[i].Type, ts.Attrs[i].Type, rapid.SampledFrom(gen.Kinds).Draw(t, "casetwin-kind")}).Draw(t, "casetwin-samekind"),
			Nullable: ts.Attrs[i].Nullable,
		})
		sort.Slice(ts.Attrs, func(a, b int) bool { return ts.Attrs[a].Name < ts.Attrs[b].Name })
	}

	if withRels {
		if rapid.Bool().Draw(t, "hasToOne") {
			ts.Rels = append(ts.Rels, jsonapi.Rel{FromType: "t", FromName: "o", ToType: "t", ToOne: true})
		}

		if rapid.Bool().Draw(t, "hasToMany") {
			ts.Rels = append(ts.Rels, jsonapi.Rel{FromType: "t", FromName: "m", ToType: "t"})
		}
	}

	return ts
}

// twins builds a soft resource and a wrapped struct of the same type holding
// (fresh copies of) the same values.
func twins(ts *gen.TypeSpec, vals map[string]any) (soft, wrapped jsonapi.Resource) {
	st := *ts
	st.Struct = false
	wt := *ts
	wt.Struct = true
	ss := gen.BuildSchema([]gen.TypeSpec{wt})

	soft = gen.NewResource(&st)
	wrapped = gen.NewResource(&ss.Types[0])

	// Every other wrapped twin ends up wrapping the struct by value, once it
	// is filled (Wrap takes both; the wrapper then works on its own copy of
	// the struct).
	ptr := reflect.New(ss.Types[0].GoType)
	byValue := len(vals)%2 == 1

	if byValue {
		wrapped = jsonapi.Wrap(ptr.Interface())
	}

	for _, k := range gen.SortedKeys(vals) {
		// An empty to-many list is left unset: a wrapped struct then holds a
		// nil slice and a soft resource its default empty list, which the
		// properties treat as the same (empty) value.
		if ids, ok := vals[k].([]string); ok && len(ids) == 0 {
			continue
		}

		soft.Set(k, gen.Clone(vals[k]))
		wrapped.Set(k, gen.Clone(vals[k]))
	}

	if byValue {
		wrapped = jsonapi.Wrap(ptr.Elem().Interface())
	}

	return soft, wrapped
}

// verdicts evaluates the filter on both implementations.
func verdicts(n *gen.FNode, soft, wrapped jsonapi.Resource) (s, w bool, msg string) {
	if p := oracle.Try(func() { s = n.Build().IsAllowed(soft) }); p != nil {
		return false, false, "IsAllowed on a soft resource: " + p.String()
	}

	if p := oracle.Try(func() { w = n.Build().IsAllowed(wrapped) }); p != nil {
		return false, false, "IsAllowed on a wrapped struct: " + p.String()
	}

	return s, w, ""
}

func TestC10Tree(t *testing.T) {
	r := rec.For("C10Tree")

	rapid.Check(t, prop(r, func(t *rapid.T) {
		ts := filterType(t, 5, true)
		vals := gen.FillResource(t, gen.NewResource(&ts), &ts, "v")
		tree := gen.FilterTree(t, &ts, vals, rapid.IntRange(1, 4).Draw(t, "depth"), "f")
		soft, wrapped := twins(&ts, vals)

		want := oracle.EvalFilter(tree, &ts, vals)

		s, w, msg := verdicts(tree, soft, wrapped)
		if msg != "" {
			t.Fatalf("C10 violated: %s\ntype: %s\nvalues: %s\nfilter: %s", msg, ts, gen.ShowVals(vals), tree)
		}

		if s != want || w != want {
			t.Fatalf("C10 violated: verdict soft=%v wrapped=%v, the filter read as logic gives %v\ntype: %s\nvalues: %s\nfilter: %s", s, w, want, ts, gen.ShowVals(vals), tree)
		}

		// One sub-filter object may sit at several places of a bigger filter
		// (a variable used twice): g and g, g or g, (g and A) or (g and B)
		// with A and B equal to g all read as g.
		{
			g := tree.Build()
			shared := []*jsonapi.Filter{
				{Op: "and", Val: []*jsonapi.Filter{g, g}},
				{Op: "or", Val: []*jsonapi.Filter{g, g}},
				{Op: "or", Val: []*jsonapi.Filter{{Op: "and", Val: []*jsonapi.Filter{g, tree.Build()}}, {Op: "and", Val: []*jsonapi.Filter{g, tree.Build()}}}},
				{Op: "and", Val: []*jsonapi.Filter{{Op: "or", Val: []*jsonapi.Filter{g}}, {Op: "or", Val: []*jsonapi.Filter{g, g}}, g}},
			}

			for i, f := range shared {
				var vs, vw bool

				if p := oracle.Try(func() { vs, vw = f.IsAllowed(soft), f.IsAllowed(wrapped) }); p != nil {
					t.Fatalf("C10 violated: IsAllowed (shared sub-filter, form %d) %s\nfilter: %s", i, p, tree)
				}

				if vs != want || vw != want {
					t.Fatalf("C10 violated: a filter that uses the sub-filter g at several places (form %d) gives soft=%v wrapped=%v, g alone gives %v\ntype: %s\nvalues: %s\ng: %s", i, vs, vw, want, ts, gen.ShowVals(vals), tree)
				}
			}
		}

		// Wide and deep trees around g (an evaluator that keeps a budget, a
		// depth counter or a cache must not change the verdict): many false
		// groups before one that decides, many true groups, deep nesting.
		if rapid.IntRange(0, 9).Draw(t, "bigtree") == 0 {
			k := rapid.IntRange(60, 140).Draw(t, "bigtree-width")
			never := func() *jsonapi.Filter {
				return &jsonapi.Filter{Op: "and", Val: []*jsonapi.Filter{tree.Build(), {Op: "or", Val: []*jsonapi.Filter{}}}}
			}
			always := func() *jsonapi.Filter {
				return &jsonapi.Filter{Op: "or", Val: []*jsonapi.Filter{tree.Build(), {Op: "and", Val: []*jsonapi.Filter{}}}}
			}

			wideOr := &jsonapi.Filter{Op: "or"}
			wideAnd := &jsonapi.Filter{Op: "and"}
			orKids, andKids := []*jsonapi.Filter{}, []*jsonapi.Filter{}

			for i := 0; i < k; i++ {
				orKids = append(orKids, never())
				andKids = append(andKids, always())
			}

			wideOr.Val = append(orKids, tree.Build())
			wideAnd.Val = append(andKids, tree.Build())

			deep := tree.Build()
			for i := 0; i < k; i++ {
				deep = &jsonapi.Filter{Op: []string{"and", "or"}[i%2], Val: []*jsonapi.Filter{deep}}
			}

			for name, f := range map[string]*jsonapi.Filter{"or of many false groups and g": wideOr, "and of many true groups and g": wideAnd, "g nested deeply": deep} {
				var vs, vw bool

				if p := oracle.Try(func() { vs, vw = f.IsAllowed(soft), f.IsAllowed(wrapped) }); p != nil {
					t.Fatalf("C10 violated: IsAllowed (%s, %d) %s\ng: %s", name, k, p, tree)
				}

				if vs != want || vw != want {
					t.Fatalf("C10 violated: %s (%d of them) gives soft=%v wrapped=%v, g alone gives %v\ntype: %s\nvalues: %s\ng: %s", name, k, vs, vw, want, ts, gen.ShowVals(vals), tree)
				}
			}
		}

		// One filter object used again after its values were edited (a list
		// element replaced in place, a value assigned): the verdict is that
		// of the filter as it is now.
		before := tree.String()
		f := tree.Build()
		edits := 0

		var s1, w1, s2, w2 bool

		if p := oracle.Try(func() { s1, w1 = f.IsAllowed(soft), f.IsAllowed(wrapped) }); p != nil {
			t.Fatalf("C10 violated: IsAllowed %s\nfilter: %s", p, before)
		}

		walkLeaves(tree, f, func(n *gen.FNode, lf *jsonapi.Filter) {
			if rapid.IntRange(0, 2).Draw(t, "edit") != 0 {
				return
			}

			nv, ok := newLeafVal(t, &ts, vals, n)
			if !ok {
				return
			}

			n.Val = nv
			edits++

			if old, isList := lf.Val.([]string); isList && len(old) == len(nv.([]string)) && rapid.Bool().Draw(t, "inplace") {
				copy(old, nv.([]string))
				return
			}

			lf.Val = gen.Clone(nv)
		})

		want2 := oracle.EvalFilter(tree, &ts, vals)

		if p := oracle.Try(func() { s2, w2 = f.IsAllowed(soft), f.IsAllowed(wrapped) }); p != nil {
			t.Fatalf("C10 violated: IsAllowed %s\nfilter: %s (edited from %s)", p, tree, before)
		}

		if s1 != want || w1 != want || s2 != want2 || w2 != want2 {
			t.Fatalf("C10 violated: one filter object: first soft=%v wrapped=%v (want %v); after %d of its values were edited soft=%v wrapped=%v (want %v)\ntype: %s\nvalues: %s\nfilter: %s\nedited:  %s",
				s1, w1, want, edits, s2, w2, want2, ts, gen.ShowVals(vals), before, tree)
		}

		r.Case(fmt.Sprintf("%s %s filter=%s", ts, gen.ShowVals(vals), before), tree.Depth() >= 3 && tree.Mixed(),
			fmt.Sprintf("depth:%d", tree.Depth()), fmt.Sprintf("verdict:%v", want), fmt.Sprintf("edited-and-reused:%v", edits > 0))
	}))
}

// walkLeaves visits the leaves of a filter description and of the filter built
// from it, in step.
func walkLeaves(n *gen.FNode, f *jsonapi.Filter, visit func(*gen.FNode, *jsonapi.Filter)) {
	if n.Op == "and" || n.Op == "or" || n.Group {
		kids, _ := f.Val.([]*jsonapi.Filter)
		for i, k := range n.Kids {
			if i < len(kids) {
				walkLeaves(k, kids[i], visit)
			}
		}

		return
	}

	visit(n, f)
}

// newLeafVal draws another value for a leaf, of the same Go type (lists keep
// their length), related to the resource's value often enough to flip verdicts.
func newLeafVal(t *rapid.T, ts *gen.TypeSpec, vals map[string]any, n *gen.FNode) (any, bool) {
	list := func(old []string, hit func() (string, bool)) (any, bool) {
		if len(old) == 0 {
			return nil, false
		}

		nl := make([]string, len(old))

		// A long list either misses altogether or hits exactly once (with a
		// coin per element a long list practically always hits).
		if len(old) >= 8 {
			for i := range nl {
				nl[i] = "zz-" + gen.IDString(t, "newid", true)
			}

			if h, ok := hit(); ok && rapid.Bool().Draw(t, "long-hits") {
				nl[rapid.IntRange(0, len(nl)-1).Draw(t, "long-hit-at")] = h
			}

			return nl, true
		}

		for i := range nl {
			if h, ok := hit(); ok && rapid.Bool().Draw(t, "newhit") {
				nl[i] = h
			} else {
				nl[i] = gen.IDString(t, "newid", true)
			}
		}

		return nl, true
	}

	if a, ok := ts.Attr(n.Field); ok {
		if old, isList := n.Val.([]string); isList {
			return list(old, func() (string, bool) { s, ok := vals[a.Name].(string); return s, ok })
		}

		v, _ := gen.PairValue(t, a, vals[a.Name], "newval")

		return v, true
	}

	rel, ok := ts.Rel(n.Field)
	if !ok {
		return nil, false
	}

	switch old := n.Val.(type) {
	case []string:
		return list(old, func() (string, bool) {
			if rel.ToOne {
				s, ok := vals[rel.FromName].(string)
				return s, ok
			}

			cur, _ := vals[rel.FromName].([]string)
			if len(cur) == 0 {
				return "", false
			}

			return cur[rapid.IntRange(0, len(cur)-1).Draw(t, "member")], true
		})
	case string:
		if cur, ok := vals[rel.FromName].(string); ok && rapid.Bool().Draw(t, "newcur") {
			return cur, true
		}

		if cur, ok := vals[rel.FromName].([]string); ok && len(cur) > 0 && rapid.Bool().Draw(t, "newmember") {
			return cur[rapid.IntRange(0, len(cur)-1).Draw(t, "member")], true
		}

		return gen.IDString(t, "newid", true), true
	}

	return nil, false
}

// TestC10Leaf: one attribute, one pair of values of a chosen class, every operator.
func TestC10Leaf(t *testing.T) {
	r := rec.For("C10Leaf")

	rapid.Check(t, prop(r, func(t *rapid.T) {
		attr := jsonapi.Attr{Name: "a", Type: rapid.SampledFrom(gen.Kinds).Draw(t, "kind"), Nullable: rapid.Bool().Draw(t, "nullable")}
		ts := gen.TypeSpec{Name: "t", Attrs: []jsonapi.Attr{attr}}
		rv := gen.Value(t, attr, "rv")
		cv, class := gen.PairValue(t, attr, rv, "cv")
		vals := map[string]any{"id": "1", "a": rv}
		soft, wrapped := twins(&ts, vals)

		holds := map[string]bool{}

		for _, op := range gen.AttrOps {
			leaf := &gen.FNode{Op: op, Field: "a", Val: cv}
			want := oracle.EvalAttrOp(op, rv, cv)

			s, w, msg := verdicts(leaf, soft, wrapped)
			if msg != "" {
				t.Fatalf("C10 violated: %s\nkind %s: resource value %s, filter %s", msg, gen.KindName(attr.Type, attr.Nullable), gen.Show(rv), leaf)
			}

			if s != want || w != want {
				t.Fatalf("C10 violated: kind %s, resource value %s, filter %q %s: soft=%v wrapped=%v, want %v",
					gen.KindName(attr.Type, attr.Nullable), gen.Show(rv), op, gen.Show(cv), s, w, want)
			}

			holds[op] = s
		}

		// A resource nobody has touched yet (no Set, no Get) holds the zero
		// value of the kind and is filtered like any other.
		{
			st := ts
			st.Struct = false
			typ := gen.SoftTypeOf(&st)
			zero := gen.ZeroValue(attr)

			if attr.Nullable {
				zero = gen.TypedNil(attr.Type)
			}

			for _, op := range gen.AttrOps {
				fresh := &jsonapi.SoftResource{Type: &typ}
				want := oracle.EvalAttrOp(op, zero, cv)

				var got bool

				if p := oracle.Try(func() { got = (&jsonapi.Filter{Field: "a", Op: op, Val: gen.Clone(cv)}).IsAllowed(fresh) }); p != nil {
					t.Fatalf("C10 violated: IsAllowed on an untouched soft resource %s", p)
				}

				if got != want {
					t.Fatalf("C10 violated: kind %s, an untouched soft resource (zero value %s), filter %q %s: %v, want %v",
						gen.KindName(attr.Type, attr.Nullable), gen.Show(zero), op, gen.Show(cv), got, want)
				}
			}
		}

		// The laws themselves, on the implementation's verdicts.
		rnil, _ := gen.Deref(rv)
		cnil, _ := gen.Deref(cv)

		// The filter's value may be the very value the resource holds (the
		// same pointer for nullable kinds, the same slice for byte strings).
		for _, op := range gen.AttrOps {
			want := oracle.EvalAttrOp(op, rv, rv)

			for _, c := range []struct {
				impl string
				res  jsonapi.Resource
			}{{"soft", soft}, {"wrapped", wrapped}} {
				var got bool

				// (a wrapped struct reads a nil nullable value as an untyped
				// nil, which is not a well-typed filter value: nothing to share)
				if c.res.Get("a") == nil {
					continue
				}

				if p := oracle.Try(func() {
					f := &jsonapi.Filter{Field: "a", Op: op, Val: c.res.Get("a")}
					got = f.IsAllowed(c.res)
				}); p != nil {
					t.Fatalf("C10 violated: IsAllowed (%s resource, filter value taken from the resource itself) %s", c.impl, p)
				}

				if got != want {
					t.Fatalf("C10 violated: kind %s, %s resource holding %s, filter %q with the value read from the resource itself: %v, want %v",
						gen.KindName(attr.Type, attr.Nullable), c.impl, gen.Show(rv), op, got, want)
				}
			}
		}

		if holds["="] == holds["!="] {
			t.Fatalf("C10 violated: = and != are not complementary for %s vs %s", gen.Show(rv), gen.Show(cv))
		}

		if !rnil && !cnil && attr.Type != jsonapi.AttrTypeBool {
			n := 0
			for _, op := range []string{"<", "=", ">"} {
				if holds[op] {
					n++
				}
			}

			if n != 1 || holds["<="] != (holds["<"] || holds["="]) || holds[">="] != (holds[">"] || holds["="]) {
				t.Fatalf("C10 violated: order laws broken for %s vs %s: %v", gen.Show(rv), gen.Show(cv), holds)
			}
		}

		r.Case(fmt.Sprintf("%s rv=%s cv=%s", gen.KindName(attr.Type, attr.Nullable), gen.Show(rv), gen.Show(cv)),
			class == "adjacent" || class == "nil" || rnil, gen.KindName(attr.Type, attr.Nullable), "class:"+class)
	}))
}

// matrixPairs returns representative (resource value, filter value) pairs of a
// base kind: equal, less, greater, and prefix relations for strings and bytes.
func matrixPairs(kind int) [][2]any {
	t0 := time.Date(2020, 5, 17, 10, 0, 0, 5, time.UTC)

	switch kind {
	case jsonapi.AttrTypeString:
		return [][2]any{{"ab", "ab"}, {"ab", "ac"}, {"ac", "ab"}, {"a", "ab"}, {"ab", "a"}, {"", "a"}, {"b", "ab"}, {"ab", "b"}, {"é", "z"}}
	case jsonapi.AttrTypeBytes:
		return [][2]any{
			{[]byte{1, 2}, []byte{1, 2}}, {[]byte{1, 2}, []byte{1, 3}}, {[]byte{1, 3}, []byte{1, 2}}, {[]byte{1}, []byte{1, 2}}, {[]byte{1, 2}, []byte{1}},
			{[]byte{}, []byte{0}}, {[]byte{2, 1}, []byte{1, 2}}, {[]byte{1, 2}, []byte{2, 1}}, {[]byte{2}, []byte{1, 2}}, {[]byte{1, 9}, []byte{2}},
			{[]byte{0xff}, []byte{0x7f}}, {[]byte{}, []byte{}},
		}
	case jsonapi.AttrTypeBool:
		return [][2]any{{true, true}, {false, true}, {true, false}, {false, false}}
	case jsonapi.AttrTypeTime:
		return [][2]any{{t0, t0}, {t0, t0.Add(1)}, {t0.Add(1), t0}, {t0, t0.In(time.FixedZone("", 7200))}, {t0.In(time.FixedZone("", -3600)), t0.Add(time.Hour)}}
	case jsonapi.AttrTypeInt:
		return [][2]any{{1, 1}, {1, 2}, {2, 1}, {math.MinInt64, math.MaxInt64}, {-1, 1}}
	case jsonapi.AttrTypeInt8:
		return [][2]any{{int8(1), int8(1)}, {int8(-128), int8(127)}, {int8(127), int8(-128)}, {int8(-1), int8(1)}}
	case jsonapi.AttrTypeInt16:
		return [][2]any{{int16(1), int16(1)}, {int16(-32768), int16(32767)}, {int16(2), int16(1)}, {int16(-1), int16(1)}}
	case jsonapi.AttrTypeInt32:
		return [][2]any{{int32(1), int32(1)}, {int32(math.MinInt32), int32(math.MaxInt32)}, {int32(2), int32(1)}, {int32(-1), int32(1)}}
	case jsonapi.AttrTypeInt64:
		return [][2]any{{int64(1), int64(1)}, {int64(math.MinInt64), int64(math.MaxInt64)}, {int64(2), int64(1)}, {int64(-1), int64(1)}}
	case jsonapi.AttrTypeUint:
		return [][2]any{{uint(1), uint(1)}, {uint(0), uint(math.MaxUint64)}, {uint(math.MaxUint64), uint(1 << 63)}, {uint(1<<63 - 1), uint(1 << 63)}}
	case jsonapi.AttrTypeUint8:
		return [][2]any{{uint8(1), uint8(1)}, {uint8(0), uint8(255)}, {uint8(255), uint8(128)}, {uint8(127), uint8(128)}}
	case jsonapi.AttrTypeUint16:
		return [][2]any{{uint16(1), uint16(1)}, {uint16(0), uint16(65535)}, {uint16(65535), uint16(32768)}, {uint16(32767), uint16(32768)}}
	case jsonapi.AttrTypeUint32:
		return [][2]any{{uint32(1), uint32(1)}, {uint32(0), uint32(math.MaxUint32)}, {uint32(math.MaxUint32), uint32(1 << 31)}, {uint32(1<<31 - 1), uint32(1 << 31)}}
	case jsonapi.AttrTypeUint64:
		return [][2]any{{uint64(1), uint64(1)}, {uint64(0), uint64(math.MaxUint64)}, {uint64(math.MaxUint64), uint64(1 << 63)}, {uint64(1<<63 - 1), uint64(1 << 63)}}
	}

	panic("matrixPairs: kind")
}

// TestC10Matrix enumerates operator x kind x nullable x pair class.
func TestC10Matrix(t *testing.T) {
	r := rec.For("C10Matrix")

	for _, kind := range gen.Kinds {
		for _, nullable := range []bool{false, true} {
			attr := jsonapi.Attr{Name: "a", Type: kind, Nullable: nullable}
			ts := gen.TypeSpec{Name: "t", Attrs: []jsonapi.Attr{attr}}

			pairs := [][2]any{}

			for _, p := range matrixPairs(kind) {
				if nullable {
					pairs = append(pairs, [2]any{gen.PtrTo(p[0]), gen.PtrTo(p[1])},
						[2]any{gen.TypedNil(kind), gen.PtrTo(p[1])}, [2]any{gen.PtrTo(p[0]), gen.TypedNil(kind)})
				} else {
					pairs = append(pairs, p)
				}
			}

			if nullable {
				pairs = append(pairs, [2]any{gen.TypedNil(kind), gen.TypedNil(kind)})
			}

			for _, p := range pairs {
				soft, wrapped := twins(&ts, map[string]any{"id": "1", "a": p[0]})

				for _, op := range gen.AttrOps {
					leaf := &gen.FNode{Op: op, Field: "a", Val: p[1]}
					want := oracle.EvalAttrOp(op, p[0], p[1])

					s, w, msg := verdicts(leaf, soft, wrapped)
					if msg != "" {
						t.Fatalf("C10 violated: %s\nkind %s: resource value %s, filter %s", msg, gen.KindName(kind, nullable), gen.Show(p[0]), leaf)
					}

					if s != want || w != want {
						t.Fatalf("C10 violated: kind %s, resource value %s, filter %q %s: soft=%v wrapped=%v, want %v",
							gen.KindName(kind, nullable), gen.Show(p[0]), op, gen.Show(p[1]), s, w, want)
					}

					rn, _ := gen.Deref(p[0])
					cn, _ := gen.Deref(p[1])
					r.Case(fmt.Sprintf("%s %s %s %s", gen.KindName(kind, nullable), gen.Show(p[0]), op, gen.Show(p[1])), rn || cn || !oracle.EvalAttrOp("=", p[0], p[1]), "op:"+op)
				}
			}
		}
	}

	// Logical connectives on constant leaves, empty child lists included.
	ts := gen.TypeSpec{Name: "t", Attrs: []jsonapi.Attr{{Name: "a", Type: jsonapi.AttrTypeInt}}}
	vals := map[string]any{"id": "1", "a": 1}
	soft, wrapped := twins(&ts, vals)
	tr := &gen.FNode{Op: "=", Field: "a", Val: 1}
	fa := &gen.FNode{Op: "=", Field: "a", Val: 2}

	for _, tree := range []*gen.FNode{
		{Op: "and"}, {Op: "or"}, {Op: "and", Kids: []*gen.FNode{tr, tr}}, {Op: "and", Kids: []*gen.FNode{tr, fa}}, {Op: "and", Kids: []*gen.FNode{fa, tr}},
		{Op: "or", Kids: []*gen.FNode{fa, fa}}, {Op: "or", Kids: []*gen.FNode{fa, tr}}, {Op: "or", Kids: []*gen.FNode{tr, fa}},
		{Op: "and", Kids: []*gen.FNode{{Op: "or"}, tr}}, {Op: "or", Kids: []*gen.FNode{{Op: "and"}, fa}},
		{Op: "or", Kids: []*gen.FNode{{Op: "and", Kids: []*gen.FNode{tr, {Op: "or", Kids: []*gen.FNode{fa, {Op: "and"}}}}}}},
	} {
		want := oracle.EvalFilter(tree, &ts, vals)

		s, w, msg := verdicts(tree, soft, wrapped)
		if msg != "" || s != want || w != want {
			t.Fatalf("C10 violated: %s gives soft=%v wrapped=%v (%s), want %v", tree, s, w, msg, want)
		}

		r.Case(tree.String(), true, "connective")
	}

	r.Exhaustive("operator x kind x nullable x representative pair classes (equal, less, greater, prefix, nil on either/both sides) + connectives with empty child lists")
}

// c10SameNamedStructs: two struct types with one Go name (different scopes)
// and different layouts are different types; the verdict on a wrapped value of
// either is the verdict on a soft resource holding the same values. (A shape
// reflect.StructOf cannot produce, hence a declared example.)
func c10SameNamedStructs(t *testing.T) {
	first := func() jsonapi.Resource {
		type doc struct {
			ID    string `json:"id" api:"docs"`
			Title string `json:"title" api:"attr"`
			Pages int    `json:"pages" api:"attr"`
		}

		return jsonapi.Wrap(&doc{ID: "1", Title: "b", Pages: 3})
	}
	second := func() jsonapi.Resource {
		type doc struct {
			Pages int    `json:"pages" api:"attr"`
			ID    string `json:"id" api:"docs"`
			Owner string `json:"owner" api:"rel,people"`
			Title string `json:"title" api:"attr"`
		}

		return jsonapi.Wrap(&doc{ID: "2", Title: "a", Pages: 7, Owner: "p1"})
	}

	for round := 0; round < 2; round++ {
		for _, c := range []struct {
			res   jsonapi.Resource
			title string
			pages int
		}{{first(), "b", 3}, {second(), "a", 7}} {
			for _, f := range []struct {
				filter *jsonapi.Filter
				want   bool
			}{
				{&jsonapi.Filter{Field: "title", Op: "=", Val: c.title}, true},
				{&jsonapi.Filter{Field: "title", Op: "<", Val: "ab"}, c.title < "ab"},
				{&jsonapi.Filter{Field: "pages", Op: ">", Val: 5}, c.pages > 5},
				{&jsonapi.Filter{Op: "and", Val: []*jsonapi.Filter{{Field: "pages", Op: "=", Val: c.pages}, {Field: "title", Op: "!=", Val: "zz"}}}, true},
			} {
				var got bool

				if p := oracle.Try(func() { got = f.filter.IsAllowed(c.res) }); p != nil {
					t.Fatalf("C10 violated: IsAllowed on a wrapped %T %s", c.res, p)
				}

				if got != f.want {
					t.Fatalf("C10 violated: wrapped struct {title %q pages %d}: filter %+v gives %v, want %v", c.title, c.pages, *f.filter, got, f.want)
				}
			}
		}
	}
}

func TestC10Regress(t *testing.T) {
	t.Run("same-named-structs", c10SameNamedStructs)

	check := func(t *testing.T, attr jsonapi.Attr, rv, cv any, ops ...string) {
		ts := gen.TypeSpec{Name: "t", Attrs: []jsonapi.Attr{attr}}
		soft, wrapped := twins(&ts, map[string]any{"id": "1", "a": rv})

		for _, op := range ops {
			leaf := &gen.FNode{Op: op, Field: "a", Val: cv}
			want := oracle.EvalAttrOp(op, rv, cv)

			s, w, msg := verdicts(leaf, soft, wrapped)
			if msg != "" || s != want || w != want {
				t.Fatalf("C10 violated: %s vs %s, op %q: soft=%v wrapped=%v (%s), want %v", gen.Show(rv), gen.Show(cv), op, s, w, msg, want)
			}
		}
	}

	t.Run("byte-string-ordering", func(t *testing.T) {
		a := jsonapi.Attr{Name: "a", Type: jsonapi.AttrTypeBytes}
		check(t, a, []byte{2, 1}, []byte{1, 2}, gen.AttrOps...)
		check(t, a, []byte{1, 2}, []byte{2, 1}, gen.AttrOps...)
		check(t, a, []byte{1, 9}, []byte{2}, gen.AttrOps...)
	})

	t.Run("wrapped-nil-nullable", func(t *testing.T) {
		a := jsonapi.Attr{Name: "a", Type: jsonapi.AttrTypeString, Nullable: true}
		s := "x"
		check(t, a, (*string)(nil), (*string)(nil), gen.AttrOps...)
		check(t, a, (*string)(nil), &s, gen.AttrOps...)
		check(t, a, &s, (*string)(nil), gen.AttrOps...)
	})
}

package props

import (
	"fmt"
	"reflect"
	"testing"

	"github.com/mfcochauxlaberge/jsonapi"
	"pgregory.net/rapid"

	"verif/harness/gen"
	"verif/harness/kf"
	"verif/harness/oracle"
	"verif/harness/rec"
)

// C13 — partial unmarshaling reports exactly the fields present.

// partialOracle compares an accepted partial resource with the payload's
// model and with the result of full unmarshaling.
func partialOracle(pc *gen.PayloadCase, ss *gen.SchemaSpec, full jsonapi.Resource, part *jsonapi.SoftResource) string {
	ts := pc.TS

	var msg string

	if p := oracle.Try(func() {
		if n := part.GetType().Name; n != ts.Name {
			msg = fmt.Sprintf("partial type name %q, want %q", n, ts.Name)
			return
		}

		if part.Get("id") != pc.ID || full.Get("id") != pc.ID {
			msg = fmt.Sprintf("ids %q / %q, want %q", part.Get("id"), full.Get("id"), pc.ID)
			return
		}

		wantAttrs := gen.SortedKeys(pc.Attrs)
		wantRels := []string{}

		for _, n := range gen.SortedKeys(pc.Rels) {
			if pc.Rels[n].HasData {
				wantRels = append(wantRels, n)
			}
		}

		gotAttrs := gen.SortedKeys(part.Attrs())
		gotRels := gen.SortedKeys(part.Rels())

		if !reflect.DeepEqual(gotAttrs, wantAttrs) {
			msg = fmt.Sprintf("partial resource has attributes %q, the payload's attributes object has %q", gotAttrs, wantAttrs)
			return
		}

		if !reflect.DeepEqual(gotRels, wantRels) {
			msg = fmt.Sprintf("partial resource has relationships %q, the payload carries data for %q", gotRels, wantRels)
			return
		}

		schemaType, _ := typeNamed(ss.Schema, ts.Name)

		for _, n := range wantAttrs {
			a, _ := ts.Attr(n)
			if got := part.Attrs()[n]; got != a || got != schemaType.Attrs[n] {
				msg = fmt.Sprintf("partial definition of attribute %q is %+v, schema has %+v", n, got, a)
				return
			}

			if ok, why := oracle.SameValue(a, full.Get(n), part.Get(n)); !ok {
				msg = fmt.Sprintf("attribute %q: full vs partial: %s", n, why)
				return
			}
		}

		for _, n := range wantRels {
			r := schemaType.Rels[n]
			if got := part.Rels()[n]; got != r {
				msg = fmt.Sprintf("partial definition of relationship %q is %s, schema has %s", n, gen.RelString(got), gen.RelString(r))
				return
			}

			fv, pv := full.Get(n), part.Get(n)
			if r.ToOne {
				if fv != pv {
					msg = fmt.Sprintf("to-one %q: full %v vs partial %v", n, fv, pv)
					return
				}

				continue
			}

			// "the value full unmarshaling gives it": the same list
			a := append([]string{}, fv.([]string)...)
			b := append([]string{}, pv.([]string)...)

			if !reflect.DeepEqual(a, b) {
				msg = fmt.Sprintf("to-many %q: full %q vs partial %q", n, fv, pv)
				return
			}
		}
	}); p != nil {
		return p.String()
	}

	return msg
}

func TestC13Partial(t *testing.T) {
	r := rec.For("C13Partial")

	rapid.Check(t, prop(r, func(t *rapid.T) {
		ss := gen.CoherentSchema(t, gen.SchemaOpts{MinTypes: 1, MaxTypes: 2, MaxAttrs: 6, MaxRelEdges: 5, AllKindsChance: 12, AllowTypeField: true, RawStructRels: true, OddFromType: true})
		ts := &ss.Types[rapid.IntRange(0, len(ss.Types)-1).Draw(t, "type")]
		pc := gen.ResourcePayload(t, ts, gen.PayloadOpts{IllPerTen: 1, IllRelPerTen: 2, UnknownPerTen: 1, OddIdentPerTen: 1})

		// Something after the resource object: white space is fine for both
		// entry points, anything else is not a JSON text any more.
		if rapid.IntRange(0, 7).Draw(t, "trailing") == 0 {
			pc.Text += rapid.SampledFrom([]string{"}", " {}", "x", "]", "\n \t", ",", " null", "\x00"}).Draw(t, "trailing-text")
		}

		// ... and something before it: JSON's four white space characters, or
		// text that is none of them.
		if rapid.IntRange(0, 7).Draw(t, "leading") == 5 {
			pc.Text = rapid.SampledFrom([]string{"\n", "\r\n", " \n\t", "\t", "  ", "\r", "\n\n{}", "\ufeff", "\v", "\u00a0", "null ", "[", "//c\n"}).Draw(t, "leading-text") + pc.Text
			r.Label("leading-text")
		}

		var (
			full       jsonapi.Resource
			part       *jsonapi.SoftResource
			errF, errP error
		)

		pF := oracle.Try(func() { full, errF = jsonapi.UnmarshalResource([]byte(pc.Text), ss.Schema) })
		pP := oracle.Try(func() { part, errP = jsonapi.UnmarshalPartialResource([]byte(pc.Text), ss.Schema) })

		labels := []string{}
		if ts.Struct {
			labels = append(labels, "impl:struct")
		} else {
			labels = append(labels, "impl:soft")
		}

		if pF != nil || pP != nil {
			for _, a := range ts.Attrs {
				if l, ok := pc.Attrs[a.Name]; ok && (bytesPanicKnown(a, l.Text, pF) || bytesPanicKnown(a, l.Text, pP)) && kf.Known(sigBytesPanic) {
					r.Excluded(sigBytesPanic)
					return
				}
			}

			// Panic freedom of these entry points is C05's subject.
			r.Case(pc.String(), false, append(labels, "discarded_panic")...)

			return
		}

		if (errF == nil) != (errP == nil) {
			t.Fatalf("C13 violated: full unmarshaling says %v, partial unmarshaling says %v\ncase: %s", errF, errP, pc)
		}

		nFields := len(ts.Attrs) + len(ts.Rels)
		nPresent := len(pc.Attrs)
		noData := false

		for _, f := range pc.Rels {
			if f.HasData {
				nPresent++
			} else {
				noData = true
			}
		}

		nontrivial := (nPresent > 0 && nPresent < nFields) || noData

		if errF != nil {
			if part != nil || full != nil {
				t.Fatalf("C13 violated: a result was returned together with an error\ncase: %s", pc)
			}

			r.Case(pc.String(), false, append(labels, "rejected")...)

			return
		}

		if msg := partialOracle(pc, ss, full, part); msg != "" {
			t.Fatalf("C13 violated: %s\ncase: %s", msg, pc)
		}

		if noData {
			labels = append(labels, "relationship-without-data")
		}

		r.Case(pc.String(), nontrivial, append(labels, "accepted")...)
	}))
}

func TestC13Regress(t *testing.T) {
	ss := gen.BuildSchema([]gen.TypeSpec{{
		Name:  "a",
		Attrs: []jsonapi.Attr{{Name: "p", Type: jsonapi.AttrTypeInt}, {Name: "q", Type: jsonapi.AttrTypeString, Nullable: true}, {Name: "r", Type: jsonapi.AttrTypeBool}},
		Rels:  []jsonapi.Rel{{FromType: "a", FromName: "m", ToType: "a"}, {FromType: "a", FromName: "o", ToType: "a", ToOne: true}},
	}})
	text := `{"id":"1","type":"a","attributes":{"q":null,"p":7},"relationships":{"m":{"links":{"self":"x"}},"o":{"data":null}}}`

	part, err := jsonapi.UnmarshalPartialResource([]byte(text), ss.Schema)
	if err != nil {
		t.Fatal(err)
	}

	if got := gen.SortedKeys(part.Attrs()); !reflect.DeepEqual(got, []string{"p", "q"}) {
		t.Fatalf("C13 violated: attributes %q", got)
	}

	if got := gen.SortedKeys(part.Rels()); !reflect.DeepEqual(got, []string{"o"}) {
		t.Fatalf("C13 violated: relationships %q", got)
	}

	if part.Get("p") != 7 || part.Get("o") != "" || part.GetType().Name != "a" {
		t.Fatalf("C13 violated: values %v %v %v", part.Get("p"), part.Get("o"), part.GetType().Name)
	}
}

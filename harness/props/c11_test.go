package props

import (
	"bytes"
	"fmt"
	"reflect"
	"sort"
	"strings"
	"testing"

	"github.com/mfcochauxlaberge/jsonapi"
	"pgregory.net/rapid"

	"verif/harness/gen"
	"verif/harness/oracle"
	"verif/harness/rec"
)

// C11 — marshaling is deterministic and depends only on content.

func permuteStrings(t *rapid.T, l []string, label string, changed *bool) []string {
	if len(l) < 2 {
		return append([]string{}, l...)
	}

	p := rapid.Permutation(l).Draw(t, label)
	if !reflect.DeepEqual(p, l) {
		*changed = true
	}

	return p
}

// permutedTwin builds an equal-content copy of the case's document and URL in
// which every order-irrelevant list is permuted.
func permutedTwin(t *rapid.T, c *gen.DocCase) (*jsonapi.Document, *jsonapi.URL, bool) {
	changed := false

	tw := func(m gen.ResModel, label string) jsonapi.Resource {
		res := gen.NewResource(m.TS)

		for _, k := range gen.SortedKeys(m.Vals) {
			v := gen.Clone(m.Vals[k])
			if ids, ok := v.([]string); ok {
				v = permuteStrings(t, ids, label+"-"+k, &changed)
			}

			res.Set(k, v)
		}

		// (the twin carries a copy of the resource's meta)
		if mh, ok := m.Res.(jsonapi.MetaHolder); ok && mh.Meta() != nil {
			cp := jsonapi.Meta{}
			for k, v := range mh.Meta() {
				cp[k] = v
			}

			res.(jsonapi.MetaHolder).SetMeta(cp)
		}

		return res
	}

	doc := &jsonapi.Document{PrePath: c.PrePath, Meta: jsonapi.Meta(c.Meta), Errors: append([]jsonapi.Error{}, c.Errors...)}
	if c.Meta == nil {
		doc.Meta = nil
	}

	// (the twin has its own map of links, holding the same links)
	if c.Doc.Links != nil {
		doc.Links = map[string]jsonapi.Link{}
		for k, v := range c.Doc.Links {
			doc.Links[k] = v
		}
	}

	if c.Doc.Resources != nil {
		doc.Resources = map[string]map[string]struct{}{}
		for k, v := range c.Doc.Resources {
			doc.Resources[k] = map[string]struct{}{}
			for k2 := range v {
				doc.Resources[k][k2] = struct{}{}
			}
		}
	}

	switch c.DataKind {
	case "resource":
		doc.Data = tw(c.Primary[0], "p")
	case "resources":
		col := &jsonapi.Resources{}
		for i, m := range c.Primary {
			col.Add(tw(m, fmt.Sprintf("p%d", i)))
		}

		doc.Data = col
	case "softcol":
		col := &jsonapi.SoftCollection{}
		typ := gen.SoftTypeOf(c.Primary0Type())
		col.SetType(&typ)

		for i, m := range c.Primary {
			col.Add(tw(m, fmt.Sprintf("p%d", i)))
		}

		doc.Data = col
	case "wrapcol":
		ts := c.Primary0Type()
		col := jsonapi.WrapCollection(gen.NewResource(ts))

		for i, m := range c.Primary {
			col.Add(tw(m, fmt.Sprintf("p%d", i)))
		}

		doc.Data = col
	case "identifier":
		doc.Data = c.Idents[0]
	case "identifiers":
		doc.Data = append(jsonapi.Identifiers{}, c.Idents...)
	}

	if len(c.Included) > 0 {
		idx := make([]int, len(c.Included))
		for i := range idx {
			idx[i] = i
		}

		if len(idx) > 1 {
			p := rapid.Permutation(idx).Draw(t, "incperm")
			if !reflect.DeepEqual(p, idx) {
				changed = true
			}

			// Included resources with the same ID (of different types) have
			// no order of their own: they stay in the caller's order, so the
			// twin keeps them in that order among themselves.
			byID := map[string][]int{}
			for pos, i := range p {
				byID[c.Included[i].ID()] = append(byID[c.Included[i].ID()], pos)
			}

			for _, positions := range byID {
				members := make([]int, len(positions))
				for k, pos := range positions {
					members[k] = p[pos]
				}

				sort.Ints(members)

				for k, pos := range positions {
					p[pos] = members[k]
				}
			}

			idx = p
		}

		for _, i := range idx {
			doc.Included = append(doc.Included, tw(c.Included[i], fmt.Sprintf("i%d", i)))
		}
	}

	doc.RelData = map[string][]string{}
	for _, k := range gen.SortedKeys(c.RelData) {
		doc.RelData[k] = permuteStrings(t, c.RelData[k], "rd-"+k, &changed)
	}

	u := &jsonapi.URL{
		Fragments: append([]string{}, c.URL.Fragments...), ResType: c.URL.ResType, ResID: c.URL.ResID, IsCol: c.URL.IsCol,
		Params: &jsonapi.Params{Fields: map[string][]string{}, SortingRules: append([]string{}, c.URL.Params.SortingRules...)},
	}
	if c.URL.Params.SortingRules == nil {
		u.Params.SortingRules = nil
	}

	if c.URL.Params.Page != nil {
		u.Params.Page = map[string]any{}
		for k, v := range c.URL.Params.Page {
			u.Params.Page[k] = v
		}
	}

	for _, k := range gen.SortedKeys(c.Selection) {
		u.Params.Fields[k] = permuteStrings(t, c.Selection[k], "sel-"+k, &changed)
	}

	// The filter is content: the twin has an equal one (its own copy, operands
	// in the same order).
	u.Params.FilterLabel = c.URL.Params.FilterLabel
	u.Params.Filter = copyFilter(c.URL.Params.Filter)

	return doc, u, changed
}

func copyFilter(f *jsonapi.Filter) *jsonapi.Filter {
	if f == nil {
		return nil
	}

	g := &jsonapi.Filter{Field: f.Field, Op: f.Op, Val: gen.Clone(f.Val)}

	if kids, ok := f.Val.([]*jsonapi.Filter); ok {
		ck := make([]*jsonapi.Filter, len(kids))
		for i, k := range kids {
			ck[i] = copyFilter(k)
		}

		g.Val = ck
	}

	return g
}

// observable renders everything C11 says must not change: resources (to-many as
// multisets), and the URL with its selection lists as sorted lists.
func observable(c *gen.DocCase) string {
	var b strings.Builder

	for _, m := range append(append([]gen.ResModel{}, c.Primary...), c.Included...) {
		b.WriteString(oracle.SnapshotResource(m.Res, true))

		if mh, ok := m.Res.(jsonapi.MetaHolder); ok {
			fmt.Fprintf(&b, " meta(nil=%v)=%s", mh.Meta() == nil, gen.ShowJSONish(map[string]any(mh.Meta())))
		}

		b.WriteString("\n")
	}

	u := c.URL
	fmt.Fprintf(&b, "url frags=%q type=%q id=%q col=%v sort=%q page=%v fields=", u.Fragments, u.ResType, u.ResID, u.IsCol, u.Params.SortingRules, pageValues(u.Params.Page))

	for _, k := range gen.SortedKeys(u.Params.Fields) {
		l := append([]string{}, u.Params.Fields[k]...)
		sort.Strings(l)
		fmt.Fprintf(&b, "%q:%q ", k, l)
	}

	// The included list as the document holds it (as a multiset: its order is
	// the library's to change).
	inc := []string{}
	for _, r := range c.Doc.Included {
		inc = append(inc, fmt.Sprintf("%q/%q", r.GetType().Name, r.Get("id")))
	}

	sort.Strings(inc)
	fmt.Fprintf(&b, " included=%v", inc)

	// The lists of relationship names whose data is asked for, of the URL and
	// of the document (their order is the library's to change, not their
	// content).
	for i, lists := range []map[string][]string{u.Params.RelData, c.Doc.RelData} {
		fmt.Fprintf(&b, " %s=", []string{"url-reldata", "doc-reldata"}[i])

		for _, k := range gen.SortedKeys(lists) {
			l := append([]string{}, lists[k]...)
			sort.Strings(l)
			fmt.Fprintf(&b, "%q:%q ", k, l)
		}
	}

	// The filter exactly as it reads (operands in their order).
	fmt.Fprintf(&b, "label=%q filter=%s", u.Params.FilterLabel, showFilter(u.Params.Filter))

	return b.String()
}

// pageValues renders the page parameters with the Go type of every value (a
// number that turned from float64 into int64 reads differently to a caller).
func pageValues(page map[string]any) string {
	if page == nil {
		return "nil-map"
	}

	parts := []string{}
	for _, k := range gen.SortedKeys(page) {
		parts = append(parts, fmt.Sprintf("%q:%T(%v)", k, page[k], page[k]))
	}

	return "{" + strings.Join(parts, ",") + "}"
}

func showFilter(f *jsonapi.Filter) string {
	if f == nil {
		return "none"
	}

	if kids, ok := f.Val.([]*jsonapi.Filter); ok {
		parts := make([]string, len(kids))
		for i, k := range kids {
			parts[i] = showFilter(k)
		}

		return fmt.Sprintf("%s(%s)", f.Op, strings.Join(parts, ", "))
	}

	return fmt.Sprintf("{%q %q %s}", f.Field, f.Op, gen.Show(f.Val))
}

func TestC11Deterministic(t *testing.T) {
	r := rec.For("C11Deterministic")

	rapid.Check(t, prop(r, func(t *rapid.T) {
		// One document in four may include resources of different types
		// under one ID (short lists only: beyond a dozen members the order
		// among equal IDs is the sorting algorithm's business).
		o := docOpts
		o.DistinctIncludedIDs = rapid.IntRange(0, 3).Draw(t, "sameids") != 0
		c := gen.Document(t, o)

		// The included list may first have been built through Include, in
		// ascending ID order, before the caller put the list it wants there:
		// what counts is what the document holds when it is marshaled.
		if len(c.Doc.Included) > 1 && rapid.IntRange(0, 3).Draw(t, "via-include") == 0 {
			wanted := c.Doc.Included
			asc := append([]jsonapi.Resource{}, wanted...)
			sort.SliceStable(asc, func(i, j int) bool { return asc[i].Get("id").(string) < asc[j].Get("id").(string) })

			c.Doc.Included = nil
			for _, res := range asc {
				c.Doc.Include(res)
			}

			c.Doc.Included = wanted
		}

		// Resources may carry meta of their own (any JSON values, null
		// included).
		// (not the members of a soft collection: Add stores a snapshot of
		// fields and ID, the twin's members would come out without meta)
		withMeta := append([]gen.ResModel{}, c.Included...)
		if c.DataKind != "softcol" {
			withMeta = append(withMeta, c.Primary...)
		}

		for _, m := range withMeta {
			if mh, ok := m.Res.(jsonapi.MetaHolder); ok && rapid.IntRange(0, 5).Draw(t, "resmeta") == 0 {
				meta := jsonapi.Meta(gen.JSONObject(t, "resmeta-value", 1, 2))
				if rapid.Bool().Draw(t, "resmeta-null") {
					meta["zz-null"] = nil
				}

				mh.SetMeta(meta)
			}
		}

		// A caller may list among the included resources one that is also
		// primary data (the library only keeps that from happening in
		// Include): the list is the caller's, marshaling leaves it alone.
		if len(c.Primary) > 0 && len(c.Included) > 0 && rapid.IntRange(0, 5).Draw(t, "primary-included") == 0 {
			m := c.Primary[rapid.IntRange(0, len(c.Primary)-1).Draw(t, "primary-included-which")]
			at := rapid.IntRange(0, len(c.Included)).Draw(t, "primary-included-at")
			c.Included = append(c.Included[:at:at], append([]gen.ResModel{m}, c.Included[at:]...)...)
			c.Doc.Included = append(c.Doc.Included[:at:at], append([]jsonapi.Resource{m.Res}, c.Doc.Included[at:]...)...)
		}

		if len(c.Included) > 12 {
			seen := map[string]bool{}
			inc, docInc := c.Included[:0:0], c.Doc.Included[:0:0]

			for i, m := range c.Included {
				if !seen[m.ID()] {
					inc, docInc = append(inc, m), append(docInc, c.Doc.Included[i])
				}

				seen[m.ID()] = true
			}

			c.Included, c.Doc.Included = inc, docInc
		}

		// Links of the caller's own at the top level: absolute ones and paths,
		// which are written as they are.
		if rapid.IntRange(0, 3).Draw(t, "doclinks") == 0 {
			c.Doc.Links = map[string]jsonapi.Link{}

			for _, name := range rapid.SliceOfNDistinct(rapid.SampledFrom([]string{"related", "next", "prev", "about", "self"}), 0, 3, rapid.ID[string]).Draw(t, "doclinks-names") {
				l := jsonapi.Link{HRef: rapid.SampledFrom([]string{"/t?page%5Bnumber%5D=2", "/", "https://h/t/1", "", "//h/x", "t/1", "/a b"}).Draw(t, "doclinks-href")}
				if rapid.IntRange(0, 3).Draw(t, "doclinks-meta") == 0 {
					l.Meta = gen.JSONObject(t, "doclinks-meta-value", 1, 2)
				}

				c.Doc.Links[name] = l
			}

			r.Label("doc-links")
		}

		doc2, url2, changed := permutedTwin(t, c)

		var (
			before, after string
			outs          [][]byte
			out2          []byte
			err, err2     error
			ustr1, ustr2  string
		)

		if p := oracle.Try(func() {
			before = observable(c)

			for i := 0; i < 6 && err == nil; i++ {
				var o []byte
				o, err = jsonapi.MarshalDocument(c.Doc, c.URL)
				outs = append(outs, o)
			}

			after = observable(c)
			ustr1 = c.URL.String()
			out2, err2 = jsonapi.MarshalDocument(doc2, url2)
			ustr2 = url2.String()
		}); p != nil {
			t.Fatalf("C11 violated: %s\ncase: %s", p, c)
		}

		if err != nil || err2 != nil {
			t.Fatalf("C11 violated: marshal failed: %v / %v\ncase: %s", err, err2, c)
		}

		for i := 1; i < len(outs); i++ {
			if !bytes.Equal(outs[0], outs[i]) {
				t.Fatalf("C11 violated: marshal #%d differs from marshal #0\ncase: %s\n#0: %s\n#%d: %s", i, c, outs[0], i, outs[i])
			}
		}

		if !bytes.Equal(outs[0], out2) {
			t.Fatalf("C11 violated: output changes when order-irrelevant lists are permuted\ncase: %s\noriginal: %s\npermuted: %s", c, outs[0], out2)
		}

		if ustr1 != ustr2 {
			t.Fatalf("C11 violated: URL.String differs for permuted selections: %q vs %q", ustr1, ustr2)
		}

		// The same document and URL objects again, after their lists of names
		// were permuted in place (whatever marshaling remembered from the
		// earlier calls must not matter).
		var (
			out3     []byte
			err3     error
			changed3 bool
		)

		if c.URL != nil && c.URL.Params != nil {
			for _, k := range gen.SortedKeys(c.URL.Params.Fields) {
				l := c.URL.Params.Fields[k]
				copy(l, permuteStrings(t, l, "inplace-fields-"+k, &changed3))
			}
		}

		for _, k := range gen.SortedKeys(c.Doc.RelData) {
			l := c.Doc.RelData[k]
			copy(l, permuteStrings(t, l, "inplace-reldata-"+k, &changed3))
		}

		// ... and so were the to-many lists the resources hand out (Get): the
		// same IDs in another order.
		if p := oracle.Try(func() {
			for i, m := range append(append([]gen.ResModel{}, c.Primary...), c.Included...) {
				for _, rel := range m.TS.Rels {
					if rel.ToOne {
						continue
					}

					if l, ok := m.Res.Get(rel.FromName).([]string); ok && len(l) > 1 {
						copy(l, permuteStrings(t, l, fmt.Sprintf("inplace-ids-%d-%s", i, rel.FromName), &changed3))
					}
				}
			}
		}); p != nil {
			t.Fatalf("C11 violated: reading the to-many lists of the resources: %s\ncase: %s", p, c)
		}

		if p := oracle.Try(func() { out3, err3 = jsonapi.MarshalDocument(c.Doc, c.URL) }); p != nil {
			t.Fatalf("C11 violated: %s (after permuting in place)\ncase: %s", p, c)
		}

		if err3 != nil || !bytes.Equal(outs[0], out3) {
			t.Fatalf("C11 violated: output changes when the lists of an already marshaled document and URL are permuted in place (%v)\ncase: %s\noriginal: %s\nafter: %s", err3, c, outs[0], out3)
		}

		if changed3 {
			changed = true
		}

		if before != after {
			t.Fatalf("C11 violated: marshaling changed observable state\nbefore: %s\nafter:  %s\ncase: %s", before, after, c)
		}

		mapHeld := false

		for _, m := range append(append([]gen.ResModel{}, c.Primary...), c.Included...) {
			a, rl := c.SelectedFields(m.TS)
			if len(a) >= 2 || len(rl) >= 2 {
				mapHeld = true
			}
		}

		labels := docLabels(c)
		if changed {
			labels = append(labels, "permutation-changed")
		}

		if mapHeld {
			labels = append(labels, ">=2-map-held-members")
		}

		r.Case(c.String(), changed && mapHeld, labels...)
	}))
}

func TestC11Regress(t *testing.T) {
	ss := gen.BuildSchema([]gen.TypeSpec{{
		Name:  "a",
		Attrs: []jsonapi.Attr{{Name: "p", Type: jsonapi.AttrTypeInt}, {Name: "q", Type: jsonapi.AttrTypeString}, {Name: "r", Type: jsonapi.AttrTypeBool}},
		Rels:  []jsonapi.Rel{{FromType: "a", FromName: "m", ToType: "a"}, {FromType: "a", FromName: "o", ToType: "a", ToOne: true}},
	}})
	mk := func(id string, many []string) jsonapi.Resource {
		res := gen.NewResource(&ss.Types[0])
		res.Set("id", id)
		res.Set("m", many)

		return res
	}

	d1 := &jsonapi.Document{Data: mk("1", []string{"c", "a", "b"}), Included: []jsonapi.Resource{mk("3", nil), mk("2", nil)}, RelData: map[string][]string{"a": {"m", "o"}}}
	d2 := &jsonapi.Document{Data: mk("1", []string{"b", "c", "a"}), Included: []jsonapi.Resource{mk("2", nil), mk("3", nil)}, RelData: map[string][]string{"a": {"o", "m"}}}
	u1 := &jsonapi.URL{Fragments: []string{"a", "1"}, Params: &jsonapi.Params{Fields: map[string][]string{"a": {"p", "q", "r", "m", "o"}}}}
	u2 := &jsonapi.URL{Fragments: []string{"a", "1"}, Params: &jsonapi.Params{Fields: map[string][]string{"a": {"o", "m", "r", "q", "p"}}}}

	o1, err1 := jsonapi.MarshalDocument(d1, u1)
	o2, err2 := jsonapi.MarshalDocument(d2, u2)

	if err1 != nil || err2 != nil {
		t.Fatal(err1, err2)
	}

	if !bytes.Equal(o1, o2) {
		t.Fatalf("C11 violated:\n%s\n%s", o1, o2)
	}

	for i := 0; i < 50; i++ {
		o, _ := jsonapi.MarshalDocument(d1, u1)
		if !bytes.Equal(o, o1) {
			t.Fatalf("C11 violated: repeated marshal differs:\n%s\n%s", o1, o)
		}
	}
}

package props

import (
	"fmt"
	"strings"
	"testing"

	"github.com/mfcochauxlaberge/jsonapi"
	"pgregory.net/rapid"

	"verif/harness/gen"
	"verif/harness/oracle"
	"verif/harness/rec"
)

// C02 — documents survive a marshal/unmarshal round trip.

var docOpts = gen.DocOpts{Schema: gen.SchemaOpts{MinTypes: 1, MaxTypes: 3, MaxAttrs: 5, MaxRelEdges: 5, AllKindsChance: 10, OddFromType: true}}

// compareSelected checks the selected fields of a resource that came back
// against the model of the one that went in.
func compareSelected(c *gen.DocCase, m gen.ResModel, got jsonapi.Resource) string {
	var msg string

	if p := oracle.Try(func() {
		if n := got.GetType().Name; n != m.TS.Name {
			msg = fmt.Sprintf("type %q, want %q", n, m.TS.Name)
			return
		}

		if id, _ := got.Get("id").(string); id != m.ID() {
			msg = fmt.Sprintf("id %q, want %q", id, m.ID())
			return
		}

		attrs, rels := c.SelectedFields(m.TS)
		for _, n := range attrs {
			a, _ := m.TS.Attr(n)
			if ok, why := oracle.SameValue(a, m.Vals[n], got.Get(n)); !ok {
				msg = fmt.Sprintf("%s %q: selected attribute %q: %s", m.TS.Name, m.ID(), n, why)
				return
			}
		}

		for _, n := range rels {
			if !c.WantsRelData(m.TS, n) {
				continue
			}

			r, _ := m.TS.Rel(n)
			if ok, why := oracle.SameRel(r, m.Vals[n], got.Get(n)); !ok {
				msg = fmt.Sprintf("%s %q: selected relationship %q: %s", m.TS.Name, m.ID(), n, why)
				return
			}
		}
	}); p != nil {
		return p.String()
	}

	return msg
}

func strMapEqual(a, b map[string]string) bool {
	if len(a) != len(b) {
		return false
	}

	for k, v := range a {
		if w, ok := b[k]; !ok || w != v {
			return false
		}
	}

	return true
}

func metaEqual(a, b map[string]any) (bool, string) {
	if len(a) == 0 && len(b) == 0 {
		return true, ""
	}

	return oracle.JSONEqual(a, b)
}

// roundTripOracle is C02's oracle; shared with the native fuzz-free replay tests.
func roundTripOracle(c *gen.DocCase, payload []byte, doc2 *jsonapi.Document) string {
	if len(c.Errors) > 0 {
		if doc2.Data != nil {
			return fmt.Sprintf("error document came back with data %v", doc2.Data)
		}

		if len(doc2.Errors) != len(c.Errors) {
			return fmt.Sprintf("%d errors came back, want %d", len(doc2.Errors), len(c.Errors))
		}

		for i, e := range c.Errors {
			g := doc2.Errors[i]
			if g.ID != e.ID || g.Code != e.Code || g.Status != e.Status || g.Title != e.Title || g.Detail != e.Detail {
				return fmt.Sprintf("error %d: string members differ: %+v vs %+v", i, g, e)
			}

			if !strMapEqual(g.Links, e.Links) {
				return fmt.Sprintf("error %d: links %v, want %v", i, g.Links, e.Links)
			}

			if ok, why := metaEqual(g.Source, e.Source); !ok {
				return fmt.Sprintf("error %d: source: %s", i, why)
			}

			if ok, why := metaEqual(g.Meta, e.Meta); !ok {
				return fmt.Sprintf("error %d: meta: %s", i, why)
			}
		}

		if ok, why := metaEqual(doc2.Meta, c.Meta); !ok {
			return "meta: " + why
		}

		return ""
	}

	if len(doc2.Errors) != 0 {
		return fmt.Sprintf("document without errors came back with %d errors", len(doc2.Errors))
	}

	// Primary data: null / single / list with the same (type, id) sequence.
	switch {
	case c.DataKind == "nil":
		if doc2.Data != nil {
			return fmt.Sprintf("null data came back as %T", doc2.Data)
		}
	case !c.IsList():
		res, ok := doc2.Data.(jsonapi.Resource)
		if !ok {
			return fmt.Sprintf("single primary data came back as %T", doc2.Data)
		}

		if len(c.Primary) == 1 {
			if msg := compareSelected(c, c.Primary[0], res); msg != "" {
				return "data: " + msg
			}
		} else {
			id := c.Idents[0]
			if res.GetType().Name != id.Type || res.Get("id") != id.ID {
				return fmt.Sprintf("identifier {%q %q} came back as {%q %q}", id.Type, id.ID, res.GetType().Name, res.Get("id"))
			}
		}
	default:
		col, ok := doc2.Data.(jsonapi.Collection)
		if !ok {
			return fmt.Sprintf("list primary data came back as %T", doc2.Data)
		}

		want := len(c.Primary) + len(c.Idents)
		if col.Len() != want {
			return fmt.Sprintf("collection of %d came back with %d members", want, col.Len())
		}

		for i, m := range c.Primary {
			if msg := compareSelected(c, m, col.At(i)); msg != "" {
				return fmt.Sprintf("data[%d]: %s", i, msg)
			}
		}

		for i, id := range c.Idents {
			res := col.At(i)
			if res.GetType().Name != id.Type || res.Get("id") != id.ID {
				return fmt.Sprintf("data[%d]: identifier {%q %q} came back as {%q %q}", i, id.Type, id.ID, res.GetType().Name, res.Get("id"))
			}
		}
	}

	// Included: same set of (type, id) pairs with equal selected values.
	if len(doc2.Included) != len(c.Included) {
		return fmt.Sprintf("%d included resources came back, want %d", len(doc2.Included), len(c.Included))
	}

	for _, m := range c.Included {
		found := false

		for _, g := range doc2.Included {
			if g.GetType().Name == m.TS.Name && g.Get("id") == m.ID() {
				found = true

				if msg := compareSelected(c, m, g); msg != "" {
					return "included: " + msg
				}

				break
			}
		}

		if !found {
			return fmt.Sprintf("included resource %s %q did not come back", m.TS.Name, m.ID())
		}
	}

	if ok, why := metaEqual(doc2.Meta, c.Meta); !ok {
		return "meta: " + why
	}

	return ""
}

func docLabels(c *gen.DocCase) []string {
	l := []string{"data:" + c.DataKind}

	if len(c.Included) > 0 {
		l = append(l, "included")
	}

	if len(c.Meta) > 0 {
		l = append(l, "meta")
	}

	if len(c.Errors) > 0 {
		l = append(l, fmt.Sprintf("errors:%d", len(c.Errors)))
	}

	return l
}

func TestC02RoundTrip(t *testing.T) {
	r := rec.For("C02RoundTrip")

	rapid.Check(t, prop(r, func(t *rapid.T) {
		c := gen.Document(t, docOpts)

		var (
			payload []byte
			doc2    *jsonapi.Document
			err     error
		)

		if p := oracle.Try(func() { payload, err = jsonapi.MarshalDocument(c.Doc, c.URL) }); p != nil {
			t.Fatalf("C02 violated: MarshalDocument %s\ncase: %s", p, c)
		}

		if err != nil {
			t.Fatalf("C02 violated: MarshalDocument failed: %v\ncase: %s", err, c)
		}

		// A payload may sit in a batch for a while: one case in three marshals
		// two other documents of about the same size before the first payload
		// is read.
		if rapid.IntRange(0, 2).Draw(t, "batch") == 0 {
			for i := 0; i < 2; i++ {
				other := &jsonapi.Document{Meta: jsonapi.Meta{"batch": strings.Repeat("#", len(payload)/(i+1))}}
				if p := oracle.Try(func() { _, _ = jsonapi.MarshalDocument(other, c.URL) }); p != nil {
					t.Fatalf("C02 violated: MarshalDocument %s on a meta-only document\ncase: %s", p, c)
				}
			}
		}

		// The reader hands over its own buffer and reuses it afterwards.
		wire := append([]byte(nil), payload...)

		if p := oracle.Try(func() { doc2, err = jsonapi.UnmarshalDocument(wire, c.SS.Schema) }); p != nil {
			t.Fatalf("C02 violated: UnmarshalDocument %s\ncase: %s\npayload: %s", p, c, payload)
		}

		if err != nil {
			t.Fatalf("C02 violated: UnmarshalDocument rejected the marshaled document: %v\ncase: %s\npayload: %s", err, c, wire)
		}

		for i := range wire {
			wire[i] = '#'
		}

		if msg := roundTripOracle(c, payload, doc2); msg != "" {
			t.Fatalf("C02 violated: %s\ncase: %s\npayload: %s", msg, c, payload)
		}

		nontrivial := c.DataKind != "nil" && (len(c.Primary)+len(c.Idents) >= 2 || len(c.Included) >= 1 || len(c.Meta) > 0 || len(c.Errors) >= 2)
		r.Case(c.String(), nontrivial, docLabels(c)...)
	}))
}

// TestC02Regress: plain examples of each primary-data kind and of an error document.
func TestC02Regress(t *testing.T) {
	specs := []gen.TypeSpec{
		{Name: "a", Attrs: []jsonapi.Attr{{Name: "s", Type: jsonapi.AttrTypeString}, {Name: "n", Type: jsonapi.AttrTypeUint64, Nullable: true}},
			Rels: []jsonapi.Rel{{FromType: "a", FromName: "bs", ToType: "b", ToName: "a", FromOne: true}}},
		{Name: "b", Struct: true, Attrs: []jsonapi.Attr{{Name: "t", Type: jsonapi.AttrTypeBytes}},
			Rels: []jsonapi.Rel{{FromType: "b", FromName: "a", ToOne: true, ToType: "a", ToName: "bs"}}},
	}
	ss := gen.BuildSchema(specs)

	mk := func(ts *gen.TypeSpec, id string, vals map[string]any) gen.ResModel {
		res := gen.NewResource(ts)
		vals["id"] = id

		for k, v := range vals {
			res.Set(k, gen.Clone(v))
		}

		return gen.ResModel{TS: ts, Vals: vals, Res: res}
	}

	n := uint64(1<<63 + 5)
	a1 := mk(&ss.Types[0], "a1", map[string]any{"s": "x\"y", "n": &n, "bs": []string{"b2", "b1"}})
	a2 := mk(&ss.Types[0], "a2", map[string]any{"s": "", "n": (*uint64)(nil), "bs": []string{}})
	b1 := mk(&ss.Types[1], "b1", map[string]any{"t": []byte{1, 2}, "a": "a1"})

	sel := map[string][]string{"a": {"s", "n", "bs"}, "b": {"t", "a"}}
	rd := map[string][]string{"a": {"bs"}, "b": {"a"}}

	cases := []*gen.DocCase{
		{DataKind: "resource", Primary: []gen.ResModel{a1}, Included: []gen.ResModel{b1}, Meta: map[string]any{"k": []any{1.0, "x", nil}}},
		{DataKind: "resources", Primary: []gen.ResModel{a2, b1, a1}},
		{DataKind: "identifiers", Idents: []jsonapi.Identifier{{Type: "b", ID: "z"}, {Type: "a", ID: "y"}}},
		{DataKind: "nil", Included: []gen.ResModel{a1}},
		{DataKind: "resource", Primary: []gen.ResModel{a1}, Errors: []jsonapi.Error{
			{ID: "1", Code: "c", Status: "400", Title: "t", Detail: "d", Links: map[string]string{"about": "u"}, Source: map[string]any{"pointer": "/data"}, Meta: jsonapi.Meta{"m": true}},
			{Title: "only title"},
		}},
	}

	for i, c := range cases {
		c.SS = ss
		c.Selection, c.RelData = sel, rd
		c.Doc = &jsonapi.Document{RelData: gen.CopyStrLists(rd), Meta: jsonapi.Meta(c.Meta), Errors: c.Errors, PrePath: "https://h"}

		switch c.DataKind {
		case "resource":
			c.Doc.Data = c.Primary[0].Res
		case "resources":
			col := &jsonapi.Resources{}
			for _, m := range c.Primary {
				col.Add(m.Res)
			}

			c.Doc.Data = col
		case "identifiers":
			c.Doc.Data = jsonapi.Identifiers(c.Idents)
		}

		for _, m := range c.Included {
			c.Doc.Included = append(c.Doc.Included, m.Res)
		}

		u := &jsonapi.URL{Fragments: []string{"a"}, ResType: "a", Params: &jsonapi.Params{Fields: gen.CopyStrLists(sel)}}

		payload, err := jsonapi.MarshalDocument(c.Doc, u)
		if err != nil {
			t.Fatalf("C02 violated: example %d: %v", i, err)
		}

		doc2, err := jsonapi.UnmarshalDocument(payload, ss.Schema)
		if err != nil {
			t.Fatalf("C02 violated: example %d: %v\n%s", i, err, payload)
		}

		if msg := roundTripOracle(c, payload, doc2); msg != "" {
			t.Fatalf("C02 violated: example %d: %s\n%s", i, msg, payload)
		}
	}
}

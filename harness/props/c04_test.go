package props

import (
	"fmt"
	"reflect"
	"sort"
	"testing"

	"github.com/mfcochauxlaberge/jsonapi"
	"pgregory.net/rapid"

	"verif/harness/gen"
	"verif/harness/oracle"
	"verif/harness/rec"
)

// C04 — sparse fieldsets and relationship data are honoured exactly.

// fieldsetOracle compares one resource object of the output with what the
// inputs (type, selection, relationship-data request, resource values) dictate.
func fieldsetOracle(c *gen.DocCase, m gen.ResModel, ro oracle.ResObj) string {
	wantAttrs, wantRels := c.SelectedFields(m.TS)
	if wantAttrs == nil {
		wantAttrs = []string{}
	}

	if wantRels == nil {
		wantRels = []string{}
	}

	if got := oracle.Keys(ro.Obj["attributes"]); !reflect.DeepEqual(got, wantAttrs) {
		return fmt.Sprintf("%s: attributes %q, want %q (selection %q)", ro.Where, got, wantAttrs, c.Selection[m.TS.Name])
	}

	if got := oracle.Keys(ro.Obj["relationships"]); !reflect.DeepEqual(got, wantRels) {
		return fmt.Sprintf("%s: relationships %q, want %q (selection %q)", ro.Where, got, wantRels, c.Selection[m.TS.Name])
	}

	rels, _ := ro.Obj["relationships"].(map[string]any)

	for _, name := range wantRels {
		rel, _ := m.TS.Rel(name)
		obj, _ := rels[name].(map[string]any)
		data, has := obj["data"]
		want := c.WantsRelData(m.TS, name)

		if has != want {
			return fmt.Sprintf("%s: relationship %q has data=%v, requested=%v (RelData %q)", ro.Where, name, has, want, c.RelData[m.TS.Name])
		}

		if !has {
			continue
		}

		if rel.ToOne {
			id := m.Vals[name].(string)
			if id == "" {
				if data != nil {
					return fmt.Sprintf("%s: empty to-one %q has data %v, want null", ro.Where, name, data)
				}

				continue
			}

			o, ok := data.(map[string]any)
			if !ok || o["id"] != id || o["type"] != rel.ToType || len(o) != 2 {
				return fmt.Sprintf("%s: to-one %q has data %v, want {type:%q id:%q}", ro.Where, name, data, rel.ToType, id)
			}

			continue
		}

		l, ok := data.([]any)
		if !ok {
			return fmt.Sprintf("%s: to-many %q has data %v, want an array", ro.Where, name, data)
		}

		got := []string{}

		for _, e := range l {
			o, ok := e.(map[string]any)
			if !ok || o["type"] != rel.ToType || len(o) != 2 {
				return fmt.Sprintf("%s: to-many %q has element %v, want type %q", ro.Where, name, e, rel.ToType)
			}

			id, _ := o["id"].(string)
			got = append(got, id)
		}

		want2 := append([]string{}, m.Vals[name].([]string)...)
		sort.Strings(got)
		sort.Strings(want2)

		if !reflect.DeepEqual(got, want2) {
			return fmt.Sprintf("%s: to-many %q lists %q, want %q", ro.Where, name, got, want2)
		}
	}

	return ""
}

func TestC04Fieldsets(t *testing.T) {
	r := rec.For("C04Fieldsets")

	rapid.Check(t, prop(r, func(t *rapid.T) {
		o := docOpts
		o.NoErrors = true
		c := gen.Document(t, o)

		strict := map[string]bool{}
		distinctSel := map[string]bool{}

		// One marshal of the document with the URL, checked object by object
		// against the model.
		marshalAndCheck := func(round string) {
			var (
				out []byte
				err error
			)

			if p := oracle.Try(func() { out, err = jsonapi.MarshalDocument(c.Doc, c.URL) }); p != nil {
				t.Fatalf("C04 violated: MarshalDocument (%s) %s\ncase: %s", round, p, c)
			}

			if err != nil {
				t.Fatalf("C04 violated: MarshalDocument (%s) failed: %v\ncase: %s", round, err, c)
			}

			ds, derr := oracle.DecodeDocument(out)
			if derr != nil {
				t.Fatalf("C04 violated: %v (%s)\ncase: %s\noutput: %s", derr, round, c, out)
			}

			models := map[string]gen.ResModel{}
			for _, m := range append(append([]gen.ResModel{}, c.Primary...), c.Included...) {
				models[pairKey(m.TS.Name, m.ID())] = m
			}

			objs := append([]oracle.ResObj{}, ds.Included...)
			if len(c.Idents) == 0 {
				objs = append(objs, ds.Primary...)
			}

			if len(objs) != len(models) {
				t.Fatalf("C04 violated: %d resource objects in the output, %d resources in the document (%s)\ncase: %s\noutput: %s", len(objs), len(models), round, c, out)
			}

			for _, ro := range objs {
				m, ok := models[pairKey(ro.Type, ro.ID)]
				if !ok {
					t.Fatalf("C04 violated: output has resource object %s %q that the document does not hold (%s)\ncase: %s\noutput: %s", ro.Type, ro.ID, round, c, out)
				}

				if msg := fieldsetOracle(c, m, ro); msg != "" {
					t.Fatalf("C04 violated: %s (%s)\ncase: %s\noutput: %s", msg, round, c, out)
				}

				a, rl := c.SelectedFields(m.TS)
				n := len(a) + len(rl)

				if n > 0 && n < len(m.TS.Fields()) {
					strict[m.TS.Name] = true
				}

				distinctSel[fmt.Sprint(a, rl)] = true
			}
		}

		marshalAndCheck("first marshal")

		// The same document and URL objects once more: what the first marshal
		// did to them (it may sort lists) must not change what is selected.
		marshalAndCheck("second marshal of the same document and URL")

		// Then with everything selected and all relationship data asked for
		// (new lists in the same URL and document): the resources still have
		// all their fields.
		if rapid.Bool().Draw(t, "widen") {
			for i := range c.SS.Types {
				ts := &c.SS.Types[i]
				c.Selection[ts.Name] = ts.Fields()
				c.RelData[ts.Name] = nil

				for _, rel := range ts.Rels {
					c.RelData[ts.Name] = append(c.RelData[ts.Name], rel.FromName)
				}
			}

			c.URL.Params.Fields = gen.CopyStrLists(c.Selection)
			c.Doc.RelData = gen.CopyStrLists(c.RelData)

			marshalAndCheck("marshal after the selection was widened to everything")
		}

		labels := docLabels(c)
		if len(strict) > 0 {
			labels = append(labels, "strict-subset")
		}

		if len(distinctSel) >= 2 {
			labels = append(labels, "two-selections")
		}

		r.Case(c.String(), len(strict) > 0 && len(distinctSel) >= 2, labels...)
	}))
}

func TestC04Regress(t *testing.T) {
	t.Run("same-named-structs", c04SameNamedStructs)

	specs := []gen.TypeSpec{
		{Name: "a", Attrs: []jsonapi.Attr{{Name: "s", Type: jsonapi.AttrTypeString}, {Name: "n", Type: jsonapi.AttrTypeInt}},
			Rels: []jsonapi.Rel{{FromType: "a", FromName: "bs", ToType: "b"}, {FromType: "a", FromName: "b", ToType: "b", ToOne: true}}},
		{Name: "b", Struct: true, Attrs: []jsonapi.Attr{{Name: "s", Type: jsonapi.AttrTypeString}},
			Rels: []jsonapi.Rel{{FromType: "b", FromName: "a", ToOne: true, ToType: "a"}}},
	}
	ss := gen.BuildSchema(specs)
	a := gen.NewResource(&ss.Types[0])
	av := map[string]any{"id": "1", "s": "x", "n": 3, "bs": []string{"q", "p"}, "b": ""}

	for k, v := range av {
		a.Set(k, gen.Clone(v))
	}

	b := gen.NewResource(&ss.Types[1])
	bv := map[string]any{"id": "1", "s": "y", "a": "1"}

	for k, v := range bv {
		b.Set(k, gen.Clone(v))
	}

	c := &gen.DocCase{
		SS:        ss,
		Selection: map[string][]string{"a": {"bs", "n", "b", "nope", "id", "n"}},
		RelData:   map[string][]string{"a": {"b", "bs"}, "b": {"a"}},
	}
	doc := &jsonapi.Document{Data: a, Included: []jsonapi.Resource{b}, RelData: gen.CopyStrLists(c.RelData)}
	u := &jsonapi.URL{Fragments: []string{"a", "1"}, Params: &jsonapi.Params{Fields: gen.CopyStrLists(c.Selection)}}

	out, err := jsonapi.MarshalDocument(doc, u)
	if err != nil {
		t.Fatal(err)
	}

	ds, err := oracle.DecodeDocument(out)
	if err != nil {
		t.Fatal(err)
	}

	if msg := fieldsetOracle(c, gen.ResModel{TS: &ss.Types[0], Vals: av}, ds.Primary[0]); msg != "" {
		t.Fatalf("C04 violated: %s\n%s", msg, out)
	}

	if msg := fieldsetOracle(c, gen.ResModel{TS: &ss.Types[1], Vals: bv}, ds.Included[0]); msg != "" {
		t.Fatalf("C04 violated: %s\n%s", msg, out)
	}
}

// c04SameNamedStructs (run by TestC04Regress): two different struct types that happen to
// have the same Go name (declared in different scopes, or in two packages of
// the same name) are different types of the schema; each resource is marshaled
// under its own type's selection. reflect.StructOf cannot give two types one
// name, so this shape only exists as a declared example.
func c04SameNamedStructs(t *testing.T) {
	mkArticle := func() jsonapi.Resource {
		type item struct {
			ID     string `json:"id" api:"articles"`
			Title  string `json:"title" api:"attr"`
			Author string `json:"author" api:"rel,people"`
		}

		return jsonapi.Wrap(&item{ID: "a1", Title: "T", Author: "p1"})
	}
	mkComment := func() jsonapi.Resource {
		type item struct {
			ID   string   `json:"id" api:"comments"`
			Body string   `json:"body" api:"attr"`
			Post string   `json:"post" api:"rel,articles"`
			Tags []string `json:"tags" api:"rel,tags"`
		}

		return jsonapi.Wrap(&item{ID: "c1", Body: "B", Post: "a1", Tags: []string{"t2", "t1"}})
	}

	for round := 0; round < 2; round++ {
		doc := &jsonapi.Document{Data: mkArticle(), Included: []jsonapi.Resource{mkComment()}, RelData: map[string][]string{"articles": {"author"}, "comments": {"post", "tags"}}}
		u := &jsonapi.URL{Fragments: []string{"articles", "a1"}, ResType: "articles", ResID: "a1", Params: &jsonapi.Params{Fields: map[string][]string{"articles": {"title", "author"}, "comments": {"body", "post", "tags"}}}}

		out, err := jsonapi.MarshalDocument(doc, u)
		if err != nil {
			t.Fatalf("C04 violated: %v", err)
		}

		ds, derr := oracle.DecodeDocument(out)
		if derr != nil {
			t.Fatalf("C04 violated: %v\n%s", derr, out)
		}

		want := map[string][2][]string{"articles": {{"title"}, {"author"}}, "comments": {{"body"}, {"post", "tags"}}}
		targets := map[string]string{"author": "people", "post": "articles", "tags": "tags"}

		resources := append(append([]oracle.ResObj{}, ds.Primary...), ds.Included...)

		for _, ro := range resources {
			w, ok := want[ro.Type]
			if !ok {
				t.Fatalf("C04 violated: unexpected resource object of type %q\n%s", ro.Type, out)
			}

			attrs, _ := ro.Obj["attributes"].(map[string]any)
			rels, _ := ro.Obj["relationships"].(map[string]any)

			if got := gen.SortedKeys(attrs); !reflect.DeepEqual(got, w[0]) {
				t.Fatalf("C04 violated: %s (round %d): attributes %q, want %q\n%s", ro.Where, round, got, w[0], out)
			}

			if got := gen.SortedKeys(rels); !reflect.DeepEqual(got, w[1]) {
				t.Fatalf("C04 violated: %s (round %d): relationships %q, want %q\n%s", ro.Where, round, got, w[1], out)
			}

			for name, rv := range rels {
				rel, _ := rv.(map[string]any)

				d, has := rel["data"]
				if !has {
					t.Fatalf("C04 violated: %s: relationship %q has no data although it was asked for\n%s", ro.Where, name, out)
				}

				for _, id := range identifiersOf(d) {
					if id[0] != targets[name] {
						t.Fatalf("C04 violated: %s: relationship %q lists an identifier of type %q, want %q\n%s", ro.Where, name, id[0], targets[name], out)
					}
				}
			}
		}

		if len(resources) != 2 {
			t.Fatalf("C04 violated: %d resource objects, want 2\n%s", len(resources), out)
		}
	}
}

// identifiersOf lists the (type, id) pairs of a linkage value.
func identifiersOf(d any) [][2]string {
	out := [][2]string{}

	one := func(v any) {
		if o, ok := v.(map[string]any); ok {
			typ, _ := o["type"].(string)
			id, _ := o["id"].(string)
			out = append(out, [2]string{typ, id})
		}
	}

	if l, ok := d.([]any); ok {
		for _, e := range l {
			one(e)
		}
	} else {
		one(d)
	}

	return out
}

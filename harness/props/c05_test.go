package props

import (
	"bytes"
	"encoding/base64"
	"fmt"
	"net/http/httptest"
	"net/url"
	"os"
	"path/filepath"
	"reflect"
	"strings"
	"testing"

	"github.com/mfcochauxlaberge/jsonapi"
	"pgregory.net/rapid"

	"verif/harness/gen"
	"verif/harness/kf"
	"verif/harness/oracle"
	"verif/harness/rec"
)

// C05 — unmarshaling arbitrary bytes never panics nor yields off-schema data.

// conforms checks one returned resource against the schema: its type exists,
// every attribute it exposes is the schema's and holds a value of exactly the
// declared Go type (or nil when nullable), relationships hold string / []string.
// full: the resource must expose every field of the schema type.
// typeNamed looks a type up in the schema by its exact name (the harness' own
// reading of "exists in the schema", not the library's lookup functions).
func typeNamed(schema *jsonapi.Schema, name string) (jsonapi.Type, bool) {
	for i := range schema.Types {
		if schema.Types[i].Name == name {
			return schema.Types[i], true
		}
	}

	return jsonapi.Type{}, false
}

func conforms(schema *jsonapi.Schema, res jsonapi.Resource, full bool) string {
	var msg string

	if p := oracle.Try(func() {
		if res == nil || (reflect.ValueOf(res).Kind() == reflect.Ptr && reflect.ValueOf(res).IsNil()) {
			msg = "nil resource in a result"
			return
		}

		name := res.GetType().Name

		styp, defined := typeNamed(schema, name)
		if !defined {
			msg = fmt.Sprintf("resource of type %q, which is not in the schema", name)
			return
		}

		if _, ok := res.Get("id").(string); !ok {
			msg = fmt.Sprintf("id is a %T", res.Get("id"))
			return
		}

		attrs := res.Attrs()
		for _, n := range gen.SortedKeys(attrs) {
			if sa, ok := styp.Attrs[n]; !ok || sa != attrs[n] {
				msg = fmt.Sprintf("attribute %q (%+v) is not the schema's (%+v, present=%v)", n, attrs[n], sa, ok)
				return
			}
		}

		rels := res.Rels()
		for _, n := range gen.SortedKeys(rels) {
			sr, ok := styp.Rels[n]
			if !ok || sr.ToOne != rels[n].ToOne || sr.ToType != rels[n].ToType {
				msg = fmt.Sprintf("relationship %q is not the schema's", n)
				return
			}
		}

		if full && (len(attrs) != len(styp.Attrs) || len(rels) != len(styp.Rels)) {
			msg = fmt.Sprintf("resource exposes %d attributes and %d relationships, its schema type %d and %d", len(attrs), len(rels), len(styp.Attrs), len(styp.Rels))
			return
		}

		for _, n := range gen.SortedKeys(attrs) {
			a := styp.Attrs[n]
			v := res.Get(n)

			if v == nil {
				if !a.Nullable {
					msg = fmt.Sprintf("attribute %q (%s) holds nil", n, gen.KindName(a.Type, a.Nullable))
					return
				}

				continue
			}

			if want := gen.GoTypeOf(a.Type, a.Nullable); reflect.TypeOf(v) != want {
				msg = fmt.Sprintf("attribute %q holds a %T, the schema declares %v", n, v, want)
				return
			}
		}

		for _, n := range gen.SortedKeys(rels) {
			v := res.Get(n)
			if rels[n].ToOne {
				if _, ok := v.(string); !ok {
					msg = fmt.Sprintf("to-one %q holds a %T", n, v)
					return
				}
			} else if _, ok := v.([]string); !ok {
				msg = fmt.Sprintf("to-many %q holds a %T", n, v)
				return
			}
		}
	}); p != nil {
		return "inspecting the result: " + p.String()
	}

	return msg
}

// bytesAttrNames lists the names of all bytes attributes of the schema.
func bytesAttrNames(schema *jsonapi.Schema) map[string]bool {
	m := map[string]bool{}

	for _, typ := range schema.Types {
		for _, a := range typ.Attrs {
			if a.Type == jsonapi.AttrTypeBytes {
				m[a.Name] = true
			}
		}
	}

	return m
}

// undecodableBytesAttr reports whether the input (if it is JSON at all) holds,
// in some "attributes" object, a member named like a bytes attribute whose
// value encoding/json cannot decode into []byte: the input class of the
// recorded bytes-attribute panic.
func undecodableBytesAttr(input []byte, names map[string]bool) bool {
	if len(names) == 0 {
		return false
	}

	root, err := gen.ParseTree(input)
	if err != nil {
		return false
	}

	found := false

	root.Walk(nil, func(path []string, n *gen.Node) {
		// (encoding/json matches the members of a struct without regard to
		// letter case: "AttriButes" is read as attributes too)
		if len(path) < 2 || !strings.EqualFold(path[len(path)-2], "attributes") || !names[path[len(path)-1]] {
			return
		}

		switch n.Kind {
		case "null", "array":
			return
		case "string":
			if _, err := base64.StdEncoding.DecodeString(strings.NewReplacer("\r", "", "\n", "").Replace(n.Str)); err == nil {
				return
			}
		}

		found = true
	})

	return found
}

type epOutcome struct {
	name     string
	accepted bool
}

// runEntryPoints feeds input to every unmarshaling entry point and applies
// C05's oracle. It returns a violation message, or "" and what happened.
func runEntryPoints(schema *jsonapi.Schema, input []byte, target string) (violation string, known bool, outcomes []epOutcome) {
	names := bytesAttrNames(schema)

	onPanic := func(ep string, p *oracle.Panic) {
		if _, isErr := p.Value.(error); isErr && p.In("Attr.UnmarshalToType") && undecodableBytesAttr(input, names) {
			known = true
			return
		}

		if violation == "" {
			violation = fmt.Sprintf("%s: %s", ep, p)
		}
	}

	note := func(ep string, accepted bool) { outcomes = append(outcomes, epOutcome{ep, accepted}) }

	fail := func(ep, msg string) {
		if violation == "" {
			violation = ep + ": " + msg
		}
	}

	checkDoc := func(ep string, doc *jsonapi.Document) {
		if doc == nil {
			fail(ep, "no error and no document")
			return
		}

		switch d := doc.Data.(type) {
		case nil:
		case jsonapi.Resource:
			if m := conforms(schema, d, true); m != "" {
				fail(ep, "data: "+m)
			}
		case jsonapi.Collection:
			for i := 0; i < d.Len(); i++ {
				if m := conforms(schema, d.At(i), true); m != "" {
					fail(ep, fmt.Sprintf("data[%d]: %s", i, m))
				}
			}
		default:
			fail(ep, fmt.Sprintf("data is a %T", d))
		}

		for i, inc := range doc.Included {
			if m := conforms(schema, inc, true); m != "" {
				fail(ep, fmt.Sprintf("included[%d]: %s", i, m))
			}
		}
	}

	// UnmarshalDocument
	{
		var (
			doc *jsonapi.Document
			err error
		)

		if p := oracle.Try(func() { doc, err = jsonapi.UnmarshalDocument(input, schema) }); p != nil {
			onPanic("UnmarshalDocument", p)
		} else {
			note("UnmarshalDocument", err == nil)

			if err != nil && doc != nil {
				fail("UnmarshalDocument", "both an error and a document")
			} else if err == nil {
				checkDoc("UnmarshalDocument", doc)
			}
		}
	}

	// UnmarshalResource
	{
		var (
			res jsonapi.Resource
			err error
		)

		if p := oracle.Try(func() { res, err = jsonapi.UnmarshalResource(input, schema) }); p != nil {
			onPanic("UnmarshalResource", p)
		} else {
			note("UnmarshalResource", err == nil)

			if err != nil && res != nil {
				fail("UnmarshalResource", "both an error and a resource")
			} else if err == nil {
				if m := conforms(schema, res, true); m != "" {
					fail("UnmarshalResource", m)
				}
			}
		}
	}

	// UnmarshalPartialResource
	{
		var (
			res *jsonapi.SoftResource
			err error
		)

		if p := oracle.Try(func() { res, err = jsonapi.UnmarshalPartialResource(input, schema) }); p != nil {
			onPanic("UnmarshalPartialResource", p)
		} else {
			note("UnmarshalPartialResource", err == nil)

			if err != nil && res != nil {
				fail("UnmarshalPartialResource", "both an error and a resource")
			} else if err == nil {
				if res == nil {
					fail("UnmarshalPartialResource", "no error and no resource")
				} else if m := conforms(schema, res, false); m != "" {
					fail("UnmarshalPartialResource", m)
				}
			}
		}
	}

	// UnmarshalCollection
	{
		var (
			col jsonapi.Collection
			err error
		)

		if p := oracle.Try(func() { col, err = jsonapi.UnmarshalCollection(input, schema) }); p != nil {
			onPanic("UnmarshalCollection", p)
		} else {
			note("UnmarshalCollection", err == nil)

			if err != nil && col != nil {
				fail("UnmarshalCollection", "both an error and a collection")
			} else if err == nil {
				if col == nil {
					fail("UnmarshalCollection", "no error and no collection")
				} else {
					for i := 0; i < col.Len(); i++ {
						if m := conforms(schema, col.At(i), true); m != "" {
							fail("UnmarshalCollection", fmt.Sprintf("[%d]: %s", i, m))
						}
					}
				}
			}
		}
	}

	// UnmarshalIdentifier
	{
		var (
			id  jsonapi.Identifier
			err error
		)

		if p := oracle.Try(func() { id, err = jsonapi.UnmarshalIdentifier(input, schema) }); p != nil {
			onPanic("UnmarshalIdentifier", p)
		} else {
			note("UnmarshalIdentifier", err == nil)

			if err != nil && id != (jsonapi.Identifier{}) {
				fail("UnmarshalIdentifier", fmt.Sprintf("both an error and an identifier %+v", id))
			} else if _, defined := typeNamed(schema, id.Type); err == nil && (id.ID == "" || !defined) {
				fail("UnmarshalIdentifier", fmt.Sprintf("accepted identifier %+v", id))
			}
		}
	}

	// UnmarshalIdentifiers
	{
		var (
			ids jsonapi.Identifiers
			err error
		)

		if p := oracle.Try(func() { ids, err = jsonapi.UnmarshalIdentifiers(input, schema) }); p != nil {
			onPanic("UnmarshalIdentifiers", p)
		} else {
			note("UnmarshalIdentifiers", err == nil)

			if err != nil && len(ids) != 0 {
				fail("UnmarshalIdentifiers", "both an error and identifiers")
			} else if err == nil {
				for _, id := range ids {
					if _, defined := typeNamed(schema, id.Type); id.ID == "" || !defined {
						fail("UnmarshalIdentifiers", fmt.Sprintf("accepted identifier %+v", id))
					}
				}
			}
		}
	}

	// NewRequest
	for _, method := range []string{"POST", "PATCH", "GET"} {
		var (
			req *jsonapi.Request
			err error
		)

		hr := httptest.NewRequest(method, target, bytes.NewReader(input))

		// The request may announce an encoding of its body (chosen by the
		// body's length, so that a saved input replays the same way): whether
		// the library honours it or not, it answers with an error or a request.
		if enc := []string{"gzip", "", "identity", " GZip ", "deflate", "", "br"}[len(input)%7]; enc != "" {
			hr.Header.Set("Content-Encoding", enc)
		}

		if len(input)%3 == 1 {
			hr.Header.Set("Content-Type", "application/vnd.api+json")
		}

		if p := oracle.Try(func() { req, err = jsonapi.NewRequest(hr, schema) }); p != nil {
			onPanic("NewRequest "+method, p)
			continue
		}

		note("NewRequest "+method, err == nil)

		switch {
		case err != nil && req != nil:
			fail("NewRequest "+method, "both an error and a request")
		case err == nil && req == nil:
			fail("NewRequest "+method, "no error and no request")
		case err == nil && method != "GET":
			checkDoc("NewRequest "+method, req.Doc)
		}
	}

	if violation != "" {
		known = false
	}

	return violation, known, outcomes
}

func outcomeLabels(outcomes []epOutcome) (labels []string, anyAccepted bool) {
	for _, o := range outcomes {
		if o.accepted {
			labels = append(labels, "accepted:"+o.name)
			anyAccepted = true
		} else {
			labels = append(labels, "rejected:"+o.name)
		}
	}

	return labels, anyAccepted
}

// TestC05Structured: valid documents from the C02 generator, serialised and
// then mutated at the JSON level; the whole text and its data / included
// sub-trees are fed to every entry point.
func TestC05Structured(t *testing.T) {
	r := rec.For("C05Structured")

	rapid.Check(t, prop(r, func(t *rapid.T) {
		o := docOpts
		o.NoErrors = rapid.IntRange(0, 3).Draw(t, "noerrors") > 0
		c := gen.Document(t, o)

		// Select everything so that the serialised document carries values.
		for i := range c.SS.Types {
			c.URL.Params.Fields[c.SS.Types[i].Name] = c.SS.Types[i].Fields()
		}

		c.Doc.RelData = allRelData(c.SS)

		var (
			out []byte
			err error
		)

		if p := oracle.Try(func() { out, err = jsonapi.MarshalDocument(c.Doc, c.URL) }); p != nil || err != nil {
			t.Fatalf("generator: MarshalDocument failed: %v %v", p, err)
		}

		root, perr := gen.ParseTree(out)
		if perr != nil {
			t.Fatalf("generator: output does not parse: %v", perr)
		}

		typeNames := []string{}
		for i := range c.SS.Types {
			typeNames = append(typeNames, c.SS.Types[i].Name)
		}

		muts := []string{"none"}
		if rapid.IntRange(0, 5).Draw(t, "mutate") > 0 {
			muts = gen.Mutate(t, root, typeNames)
		}

		// Inputs: the document, its data sub-tree, an element of it, an included element.
		inputs := []string{root.Text()}

		if d := root.Get("data"); d != nil {
			inputs = append(inputs, d.Text())
			if d.Kind == "array" && len(d.Members) > 0 {
				inputs = append(inputs, d.Members[0].Text())
			}
		}

		if inc := root.Get("included"); inc != nil && inc.Kind == "array" && len(inc.Members) > 0 {
			inputs = append(inputs, inc.Members[len(inc.Members)-1].Text())
		}

		if rapid.IntRange(0, 6).Draw(t, "truncate") == 0 {
			s := inputs[0]
			inputs = append(inputs, s[:rapid.IntRange(0, len(s)).Draw(t, "cut")])
			muts = append(muts, "truncate")
		}

		labels := []string{}
		for _, m := range muts {
			labels = append(labels, "mutation:"+m)
		}

		anyAccepted := false

		for _, in := range inputs {
			violation, known, outcomes := runEntryPoints(c.SS.Schema, []byte(in), "/"+url.PathEscape(typeNames[0]))
			if violation != "" {
				t.Fatalf("C05 violated: %s\nschema: %s\nmutations: %v\ninput: %s", violation, c.SS, muts, in)
			}

			if known {
				exclude(sigBytesPanic)
				t.Fatalf("C05 violated: panic in Attr.UnmarshalToType for a bytes attribute\nschema: %s\ninput: %s", c.SS, in)
			}

			l, acc := outcomeLabels(outcomes)
			labels = append(labels, l...)
			anyAccepted = anyAccepted || acc
		}

		if anyAccepted {
			labels = append(labels, "some-input-accepted")
		}

		r.Case(fmt.Sprintf("%s\nmutations=%v\ninput=%s", c.SS, muts, inputs[0]), true, labels...)
	}))
}

// TestC05Payload: resource payloads in which every attribute of every kind is
// given a literal of any JSON kind and spelling (the C06 literal generator, half
// of them ill-typed on purpose), alone, as document data and as a collection member.
func TestC05Payload(t *testing.T) {
	r := rec.For("C05Payload")

	rapid.Check(t, prop(r, func(t *rapid.T) {
		ss := gen.CoherentSchema(t, gen.SchemaOpts{MinTypes: 1, MaxTypes: 2, MaxAttrs: 5, MaxRelEdges: 4, AllKindsChance: 6})
		ts := &ss.Types[rapid.IntRange(0, len(ss.Types)-1).Draw(t, "type")]
		pc := gen.ResourcePayload(t, ts, gen.PayloadOpts{IllPerTen: 5, IllRelPerTen: 3, UnknownPerTen: 1, AllFieldsOften: true, OddIdentPerTen: 1})

		inputs := []string{pc.Text, `{"data":` + pc.Text + `}`, `[` + pc.Text + `]`, `{"data":null,"included":[` + pc.Text + `]}`}
		labels := []string{}
		anyAccepted := false

		for _, in := range inputs {
			violation, known, outcomes := runEntryPoints(ss.Schema, []byte(in), "/"+url.PathEscape(ss.Types[0].Name))
			if violation != "" {
				t.Fatalf("C05 violated: %s\nschema: %s\ninput: %s", violation, ss, in)
			}

			if known {
				exclude(sigBytesPanic)
				t.Fatalf("C05 violated: panic in Attr.UnmarshalToType for a bytes attribute\nschema: %s\ninput: %s", ss, in)
			}

			l, acc := outcomeLabels(outcomes)
			labels = append(labels, l...)
			anyAccepted = anyAccepted || acc
		}

		for _, a := range ts.Attrs {
			if l, ok := pc.Attrs[a.Name]; ok {
				labels = append(labels, gen.KindName(a.Type, a.Nullable)+"<-"+l.JSONKind)
			}
		}

		r.Case(pc.String(), true, labels...)
	}))
}

var jsonTokens = []string{
	"{", "}", "[", "]", ":", ",", `"data"`, `"type"`, `"id"`, `"attributes"`, `"relationships"`, `"included"`, `"errors"`, `"meta"`,
	`"links"`, "null", "true", "false", "0", "1", "-1", "1e9", `""`, `"a"`, `"x"`, " ", "\n", "\x00", `"\ud800"`, "\xff", `\`,
}

// TestC05Raw: arbitrary byte strings and token soups.
func TestC05Raw(t *testing.T) {
	r := rec.For("C05Raw")

	rapid.Check(t, prop(r, func(t *rapid.T) {
		ss := gen.CoherentSchema(t, gen.SchemaOpts{MinTypes: 1, MaxTypes: 2, MaxAttrs: 3, MaxRelEdges: 2, AllKindsChance: 8})

		var input []byte

		names := []string{ss.Types[0].Name}
		for _, a := range ss.Types[0].Attrs {
			names = append(names, a.Name)
		}

		switch rapid.IntRange(0, 2).Draw(t, "mode") {
		case 0:
			input = rapid.SliceOfN(rapid.Byte(), 0, 64).Draw(t, "bytes")
		default:
			n := rapid.IntRange(0, 40).Draw(t, "ntokens")

			var b strings.Builder

			for i := 0; i < n; i++ {
				if rapid.IntRange(0, 4).Draw(t, "useName") == 0 {
					b.WriteString(gen.QuoteJSON(rapid.SampledFrom(names).Draw(t, "name")))
				} else {
					b.WriteString(rapid.SampledFrom(jsonTokens).Draw(t, "tok"))
				}
			}

			input = []byte(b.String())
		}

		violation, known, outcomes := runEntryPoints(ss.Schema, input, "/"+url.PathEscape(ss.Types[0].Name))
		if violation != "" {
			t.Fatalf("C05 violated: %s\nschema: %s\ninput: %q", violation, ss, input)
		}

		if known {
			exclude(sigBytesPanic)
			t.Fatalf("C05 violated: panic in Attr.UnmarshalToType for a bytes attribute\nschema: %s\ninput: %q", ss, input)
		}

		_, perr := gen.ParseTree(input)
		labels, _ := outcomeLabels(outcomes)

		if perr == nil {
			labels = append(labels, "valid-json")
		}

		r.Case(fmt.Sprintf("%s input=%q", ss, input), perr == nil, labels...)
	}))
}

// fixedSchema is the schema of the native fuzz target and of the regression
// examples: a soft and a struct-backed type, all 28 kinds, relationships of
// both cardinalities.
func fixedSchema() *gen.SchemaSpec {
	return gen.BuildSchema([]gen.TypeSpec{
		{Name: "a", Attrs: gen.AllKindAttrs(), Rels: []jsonapi.Rel{
			{FromType: "a", FromName: "bs", ToType: "b", ToName: "a", FromOne: true},
			{FromType: "a", FromName: "one", ToType: "a", ToOne: true},
		}},
		{Name: "b", Struct: true, Attrs: gen.AllKindAttrs(), Rels: []jsonapi.Rel{
			{FromType: "b", FromName: "a", ToOne: true, ToType: "a", ToName: "bs"},
			{FromType: "b", FromName: "many", ToType: "b"},
		}},
	})
}

func TestC05Regress(t *testing.T) {
	ss := fixedSchema()

	run := func(t *testing.T, input string) (string, bool) {
		v, known, _ := runEntryPoints(ss.Schema, []byte(input), "/a")
		return v, known
	}

	for name, input := range map[string]string{
		"unknown-type":                    `{"id":"1","type":"nope"}`,
		"missing-type":                    `{"id":"1"}`,
		"null-resource":                   `null`,
		"null-member-of-collection":       `[null]`,
		"null-included":                   `{"data":null,"included":[null]}`,
		"identifiers-with-null-element":   `[{"id":"1","type":"a"},null]`,
		"document-with-unknown-type":      `{"data":{"id":"1","type":"nope"}}`,
		"document-collection-null-member": `{"data":[null]}`,
		"bytes-given-array":               `{"id":"1","type":"a","attributes":{"bytes0":[1,2]}}`,
		"int8-out-of-range":               `{"id":"1","type":"b","attributes":{"int80":300}}`,
	} {
		t.Run(name, func(t *testing.T) {
			if v, _ := run(t, input); v != "" {
				t.Fatalf("C05 violated: %s\ninput: %s", v, input)
			}
		})
	}

	t.Run("bytes-attribute-panic", func(t *testing.T) {
		for _, input := range []string{
			`{"id":"1","type":"a","attributes":{"bytes0":12}}`,
			`{"id":"1","type":"b","attributes":{"bytes0n":"!!"}}`,
			`{"data":{"id":"1","type":"a","attributes":{"bytes0":{}}}}`,
		} {
			v, known := run(t, input)
			if v != "" {
				t.Fatalf("C05 violated: %s\ninput: %s", v, input)
			}

			if known {
				if !kf.Known(sigBytesPanic) {
					t.Fatalf("C05 violated: panic in Attr.UnmarshalToType for a bytes attribute\ninput: %s", input)
				}

				kf.Announce(sigBytesPanic)

				return
			}
		}
	})
}

// FuzzC05 is the native, coverage-guided target (thorough tier). The oracle is
// the same as in the rapid tests; the schema is fixed.
func FuzzC05(f *testing.F) {
	ss := fixedSchema()

	files, _ := filepath.Glob("/repo/testdata/goldenfiles/marshaling/*.json")
	for _, p := range files {
		if b, err := os.ReadFile(p); err == nil {
			f.Add(b)
		}
	}

	for _, s := range []string{
		`{"data":{"id":"1","type":"a","attributes":{"string0":"x","int80":1,"time0":"2020-01-01T00:00:00Z","bytes0":"AQID","uint640n":null},"relationships":{"bs":{"data":[{"id":"2","type":"b"}]},"one":{"data":null}}},"included":[{"id":"2","type":"b","attributes":{"bool0":true}}],"meta":{"k":1}}`,
		`{"data":[{"id":"1","type":"b"},{"id":"2","type":"a"}]}`,
		`{"id":"1","type":"b","relationships":{"a":{"data":{"id":"1","type":"a"}},"many":{"data":[]}}}`,
		`[{"id":"1","type":"a"},{"id":"2","type":"b"}]`,
		`{"errors":[{"id":"1","status":"400","links":{"about":"x"},"source":{"pointer":"/"},"meta":{}}]}`,
		`[null]`, `null`, `{"data":null,"included":[null]}`, `{"id":"1","type":"nope"}`,
		// (members in another letter case are the same members for encoding/json)
		`{"Data":{"ID":"1","Type":"a","AttriButes":{"bytes0":" 002","string0":"x"},"RELATIONSHIPS":{"one":{"DATA":null}}}}`,
	} {
		f.Add([]byte(s))
	}

	known := kf.Known(sigBytesPanic)

	f.Fuzz(func(t *testing.T, input []byte) {
		v, k, _ := runEntryPoints(ss.Schema, input, "/a")
		if v != "" {
			t.Fatalf("C05 violated: %s\ninput: %q", v, input)
		}

		if k && !known {
			t.Fatalf("C05 violated: panic in Attr.UnmarshalToType for a bytes attribute\ninput: %q", input)
		}
	})
}

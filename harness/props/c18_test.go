package props

import (
	"fmt"
	"reflect"
	"sort"
	"strings"
	"testing"

	"github.com/mfcochauxlaberge/jsonapi"
	"pgregory.net/rapid"

	"verif/harness/gen"
	"verif/harness/oracle"
	"verif/harness/rec"
)

// C18 — copies and new instances are independent of their source.

// copyType draws a type that always has a byte string, a nullable byte string
// and a to-many relationship next to random attributes.
func copyType(t *rapid.T) gen.TypeSpec {
	ts := filterType(t, 4, false)
	ts.Attrs = append(ts.Attrs,
		jsonapi.Attr{Name: "by", Type: jsonapi.AttrTypeBytes},
		jsonapi.Attr{Name: "byn", Type: jsonapi.AttrTypeBytes, Nullable: true},
		jsonapi.Attr{Name: "sn", Type: jsonapi.AttrTypeString, Nullable: true},
	)
	ts.Rels = []jsonapi.Rel{
		{FromType: "t", FromName: "m", ToType: "t"},
		{FromType: "t", FromName: "m2", ToType: "t"},
		{FromType: "t", FromName: "o", ToType: "t", ToOne: true},
	}

	return ts
}

func TestC18Copy(t *testing.T) {
	r := rec.For("C18Copy")

	rapid.Check(t, prop(r, func(t *rapid.T) {
		ts := copyType(t)
		vals := gen.FillResource(t, gen.NewResource(&ts), &ts, "v")

		// Make sure the interesting shapes are there most of the time.
		if rapid.IntRange(0, 3).Draw(t, "forceShapes") > 0 {
			vals["by"] = []byte{3, 1, 2}
			b := []byte{9, 8}
			vals["byn"] = &b
			vals["m"] = []string{"c", "a", "b"}
		}

		wrappedSrc := rapid.Bool().Draw(t, "wrapped")

		// A hand-made soft type often leaves FromType out of its
		// relationships (AddRel does not ask for it); a copy has it the way
		// the source has it.
		if !wrappedSrc && rapid.IntRange(0, 2).Draw(t, "blankFromType") == 0 {
			for i := range ts.Rels {
				ts.Rels[i].FromType = ""
			}
		}

		soft, wrapped := twins(&ts, vals)

		src := soft
		if wrappedSrc {
			src = wrapped
		}

		useNew := rapid.IntRange(0, 5).Draw(t, "useNew") == 0
		history := []string{}

		// A struct may be wrapped while it is still empty and get its values
		// through the caller's own pointer afterwards (here: through a second
		// wrapper around the same pointer); the first wrapper never saw a Set.
		if wrappedSrc && rapid.IntRange(0, 3).Draw(t, "filledBehind") == 0 {
			wt := ts
			wt.Struct = true
			ptr := reflect.New(gen.BuildSchema([]gen.TypeSpec{wt}).Types[0].GoType)

			if p := oracle.Try(func() {
				first := jsonapi.Wrap(ptr.Interface())
				second := jsonapi.Wrap(ptr.Interface())

				for _, k := range gen.SortedKeys(vals) {
					if ids, ok := vals[k].([]string); ok && len(ids) == 0 {
						continue
					}

					second.Set(k, gen.Clone(vals[k]))
				}

				src = first
			}); p != nil {
				t.Fatalf("C18 violated: wrapping a struct twice %s\ntype: %s", p, ts)
			}

			history = append(history, "the source wraps a struct that was filled through another wrapper of the same pointer")
		}

		// A soft resource whose type came from BuildType (NewFunc is set) and
		// was changed afterwards: New and Copy must still give a resource of
		// the resource's own (changed) type.
		if !wrappedSrc && rapid.IntRange(0, 3).Draw(t, "builtType") == 0 {
			wt := ts
			wt.Struct = true
			bt := gen.BuildSchema([]gen.TypeSpec{wt}).Schema.Types[0].Copy()
			sr := &jsonapi.SoftResource{Type: &bt}
			sr.AddAttr(jsonapi.Attr{Name: "added", Type: jsonapi.AttrTypeInt})

			for _, k := range gen.SortedKeys(vals) {
				if ids, ok := vals[k].([]string); ok && len(ids) == 0 {
					continue
				}

				sr.Set(k, gen.Clone(vals[k]))
			}

			sr.Set("added", 7)
			vals["added"] = 7
			ts.Attrs = append(ts.Attrs, jsonapi.Attr{Name: "added", Type: jsonapi.AttrTypeInt})
			src = sr
		}

		// The source may have been copied once before, at a time when its byte
		// strings and lists were still nil; they got their values afterwards.
		if rapid.IntRange(0, 3).Draw(t, "copiedEarlier") == 0 {
			if p := oracle.Try(func() {
				held := map[string]any{}

				for _, k := range []string{"by", "byn", "m"} {
					_, isAttr := src.Attrs()[k]
					_, isRel := src.Rels()[k]

					if !isAttr && !isRel {
						continue
					}

					held[k] = src.Get(k)

					switch k {
					case "by":
						src.Set(k, []byte(nil))
					case "byn":
						src.Set(k, (*[]byte)(nil))
					default:
						src.Set(k, []string(nil))
					}
				}

				_ = src.(jsonapi.Copier).Copy()

				for _, k := range gen.SortedKeys(held) {
					src.Set(k, held[k])
				}
			}); p != nil {
				t.Fatalf("C18 violated: an earlier Copy of the source %s\ntype: %s", p, ts)
			}

			history = append(history, "the source was copied once before, with nil byte strings and lists")
		}

		// Slices with room to grow (emptied in place, or built with spare
		// capacity): what is appended on one side later must not land in
		// memory the other side uses.
		if rapid.IntRange(0, 3).Draw(t, "spare") == 0 {
			if p := oracle.Try(func() {
				if _, ok := src.Attrs()["by"]; ok {
					keep := rapid.IntRange(0, 1).Draw(t, "spare-by-len")
					b := append(make([]byte, 0, 8), []byte{7, 7}[:keep]...)
					src.Set("by", b)
					vals["by"] = append([]byte{}, b...)
				}

				if _, ok := src.Rels()["m"]; ok {
					keep := rapid.IntRange(0, 1).Draw(t, "spare-m-len")
					ids := append(make([]string, 0, 8), []string{"only"}[:keep]...)
					src.Set("m", ids)
					vals["m"] = append([]string{}, ids...)
				}
			}); p != nil {
				t.Fatalf("C18 violated: Set %s", p)
			}
		}

		// Slices obtained from the source before it is copied are still
		// "slices obtained from it".
		var (
			preBytes []byte
			preIDs   []string
			prePtr   *[]byte
		)

		if p := oracle.Try(func() {
			preBytes, _ = src.Get("by").([]byte)
			preIDs, _ = src.Get("m").([]string)
			prePtr, _ = src.Get("byn").(*[]byte)
		}); p != nil {
			t.Fatalf("C18 violated: Get %s", p)
		}

		var other jsonapi.Resource

		before := oracle.SnapshotResource(src, false)

		if p := oracle.Try(func() {
			if useNew {
				other = src.(jsonapi.Copier).New()
			} else {
				other = src.(jsonapi.Copier).Copy()
			}
		}); p != nil {
			t.Fatalf("C18 violated: Copy/New %s\ntype: %s\nvalues: %s", p, ts, gen.ShowVals(vals))
		}

		desc := fmt.Sprintf("%s wrapped=%v new=%v values=%s", ts, wrappedSrc, useNew, gen.ShowVals(vals))

		if after := oracle.SnapshotResource(src, false); after != before {
			t.Fatalf("C18 violated: Copy/New changed the source\nbefore: %s\nafter:  %s\ncase: %s", before, after, desc)
		}

		// Writing through a slice taken from the source before the copy was
		// made, before anything else touches either side.
		earlyWrite := !useNew && rapid.IntRange(0, 2).Draw(t, "earlyPreWrite") == 0
		if earlyWrite {
			if len(preBytes) > 0 {
				preBytes[0] ^= 0x33
			}

			if len(preIDs) > 0 {
				preIDs[len(preIDs)-1] = "early-mutated"
			}

			if prePtr != nil && len(*prePtr) > 0 {
				(*prePtr)[len(*prePtr)-1] ^= 0x33
			}

			history = append(history, "write through slices taken from the source before Copy")
		}

		if useNew {
			if msg := readBack(&ts, map[string]any{"id": ""}, other, "New()"); msg != "" {
				t.Fatalf("C18 violated: New() is not a zero-valued resource of the same type: %s\ncase: %s", msg, desc)
			}
		} else {
			if msg := readBack(&ts, vals, other, "Copy()"); msg != "" {
				t.Fatalf("C18 violated: the copy differs from its source: %s\ncase: %s", msg, desc)
			}
		}

		inPlace := 0
		srcTypeScribbled := false
		n := rapid.IntRange(1, 12).Draw(t, "nmut")

		for i := 0; i < n; i++ {
			// x is mutated, y must not change.
			x, y, xname := src, other, "source"
			if rapid.Bool().Draw(t, "side") {
				x, y, xname = other, src, "copy"
			}

			snap := oracle.SnapshotResource(y, false)
			ops := []string{"set-attr", "set-rel", "set-id", "marshal", "filter", "write-bytes", "write-ids", "write-ptr-bytes", "append-bytes", "append-ids"}
			if x == src {
				ops = append(ops, "write-pre-bytes", "write-pre-ids", "write-pre-ptr-bytes")
			}

			if _, isSoft := x.(*jsonapi.SoftResource); isSoft {
				ops = append(ops, "add-attr", "add-rel", "remove-field")
			}

			// Adding or removing fields of its type, through the Type value or
			// the maps the resource hands out (any implementation).
			ops = append(ops, "type-remove-attr", "type-remove-rel", "attrs-map-delete")
			if _, isSoft := x.(*jsonapi.SoftResource); isSoft {
				// (a wrapped struct cannot grow a field it has no struct field for)
				ops = append(ops, "type-add-attr")
			}

			op := rapid.SampledFrom(ops).Draw(t, "op")
			what := op + " on the " + xname
			ownChange := ""

			if x == src && strings.HasPrefix(op, "type-") || x == src && strings.HasSuffix(op, "-map-delete") {
				srcTypeScribbled = true
			}

			if p := oracle.Try(func() {
				switch op {
				case "set-attr":
					a := ts.Attrs[rapid.IntRange(0, len(ts.Attrs)-1).Draw(t, "attr")]
					if _, ok := x.Attrs()[a.Name]; ok {
						x.Set(a.Name, gen.Value(t, a, "newval"))
					}
				case "set-rel":
					rel := ts.Rels[rapid.IntRange(0, len(ts.Rels)-1).Draw(t, "rel")]
					if _, ok := x.Rels()[rel.FromName]; ok {
						x.Set(rel.FromName, gen.RelIDs(t, rel, "newids", 4, true))
					}
				case "set-id":
					x.Set("id", gen.IDString(t, "newid", false))
				case "marshal":
					fields := []string{}
					for n := range x.Attrs() {
						fields = append(fields, n)
					}

					rels := []string{}
					for n := range x.Rels() {
						fields = append(fields, n)
						rels = append(rels, n)
					}

					_ = jsonapi.MarshalResource(x, "", fields, map[string][]string{x.GetType().Name: rels})
					inPlace++
				case "filter":
					if _, ok := x.Rels()["m"]; ok {
						cur := append([]string{}, x.Get("m").([]string)...)
						f := &jsonapi.Filter{Field: "m", Op: "=", Val: cur}
						_ = f.IsAllowed(x)
						inPlace++
					}
				case "write-bytes":
					if _, ok := x.Attrs()["by"]; ok {
						if b, ok := x.Get("by").([]byte); ok && len(b) > 0 {
							b[0] ^= 0xff
							inPlace++
						}
					}
				case "write-ids":
					name := rapid.SampledFrom([]string{"m", "m2"}).Draw(t, "which")
					if _, ok := x.Rels()[name]; ok {
						if ids, ok := x.Get(name).([]string); ok && len(ids) > 0 {
							ids[len(ids)-1] = "mutated"
							inPlace++
						}
					}
				case "append-bytes":
					if _, ok := x.Attrs()["by"]; ok {
						if b, ok := x.Get("by").([]byte); ok {
							x.Set("by", append(b, byte(0x40+i), byte(len(xname))))
							inPlace++
						}
					}
				case "append-ids":
					name := rapid.SampledFrom([]string{"m", "m2"}).Draw(t, "which")
					if _, ok := x.Rels()[name]; ok {
						if ids, ok := x.Get(name).([]string); ok {
							x.Set(name, append(ids, fmt.Sprintf("appended-%d-to-the-%s", i, xname)))
							inPlace++
						}
					}
				case "write-pre-bytes":
					if len(preBytes) > 0 {
						preBytes[len(preBytes)-1] ^= 0x55
						inPlace++
					}
				case "write-pre-ids":
					if len(preIDs) > 0 {
						preIDs[0] = "pre-mutated"
						inPlace++
					}
				case "write-pre-ptr-bytes":
					if prePtr != nil && len(*prePtr) > 0 {
						(*prePtr)[0] ^= 0x55
						inPlace++
					}
				case "write-ptr-bytes":
					if _, ok := x.Attrs()["byn"]; ok {
						if p, ok := x.Get("byn").(*[]byte); ok && p != nil && len(*p) > 0 {
							(*p)[0] ^= 0xff
							inPlace++
						}
					}
				case "type-add-attr":
					typ := x.GetType()
					_ = typ.AddAttr(jsonapi.Attr{Name: fmt.Sprintf("viatype%d", i), Type: jsonapi.AttrTypeBool})
				case "type-remove-attr":
					typ := x.GetType()
					typ.RemoveAttr(rapid.SampledFrom([]string{"by", "byn", "sn", "a0"}).Draw(t, "victim"))
				case "type-remove-rel":
					typ := x.GetType()
					typ.RemoveRel(rapid.SampledFrom([]string{"m", "m2", "o"}).Draw(t, "victim"))
				case "attrs-map-delete":
					delete(x.Attrs(), rapid.SampledFrom([]string{"by", "byn", "sn", "a0"}).Draw(t, "victim"))
				case "add-attr":
					x.(*jsonapi.SoftResource).AddAttr(jsonapi.Attr{Name: fmt.Sprintf("new%d", i), Type: jsonapi.AttrTypeInt})
				case "add-rel":
					x.(*jsonapi.SoftResource).AddRel(jsonapi.Rel{FromType: "t", FromName: fmt.Sprintf("newrel%d", i), ToType: "t"})
				case "remove-field":
					// (the mutated side keeps all its other values)
					victim := rapid.SampledFrom(ts.Fields()).Draw(t, "victim")
					own := fieldValues(x)
					x.(*jsonapi.SoftResource).RemoveField(victim)
					delete(own, victim)

					if now := fieldValues(x); !reflect.DeepEqual(own, now) {
						ownChange = fmt.Sprintf("RemoveField(%q) on the %s: its fields read %v before (without %q) and %v after", victim, xname, own, victim, now)
					}
				}
			}); p != nil {
				t.Fatalf("C18 violated: %s %s\ncase: %s\nhistory: %s", what, p, desc, strings.Join(history, "; "))
			}

			history = append(history, what)

			if ownChange != "" {
				t.Fatalf("C18 violated: %s\ncase: %s\nhistory: %s", ownChange, desc, strings.Join(history, "; "))
			}

			var after string
			if p := oracle.Try(func() { after = oracle.SnapshotResource(y, false) }); p != nil {
				t.Fatalf("C18 violated: reading the other side after %s: %s\ncase: %s", what, p, desc)
			}

			if after != snap {
				t.Fatalf("C18 violated: %s changed what is read from the other one\nbefore: %s\nafter:  %s\ncase: %s\nhistory: %s", what, snap, after, desc, strings.Join(history, "; "))
			}
		}

		hasShapes := false
		if b, ok := vals["by"].([]byte); ok && len(b) > 0 {
			hasShapes = true
		}

		if ids, ok := vals["m"].([]string); ok && len(ids) >= 2 {
			hasShapes = true
		}

		labels := []string{fmt.Sprintf("wrapped:%v", wrappedSrc), fmt.Sprintf("new:%v", useNew)}
		if inPlace > 0 {
			labels = append(labels, "in-place-mutation")
		}

		// A soft resource of a type without any field has an ID to copy all
		// the same.
		if rapid.IntRange(0, 9).Draw(t, "bare") == 0 {
			bare := &jsonapi.SoftResource{Type: &jsonapi.Type{Name: ts.Name}}
			bareID := gen.IDString(t, "bare-id", false)
			bare.SetID(bareID)

			var cp, nw jsonapi.Resource

			if p := oracle.Try(func() { cp, nw = bare.Copy(), bare.New() }); p != nil {
				t.Fatalf("C18 violated: Copy/New of a resource of a type without fields %s", p)
			}

			if cp.Get("id") != bareID || cp.GetType().Name != ts.Name || len(cp.Attrs())+len(cp.Rels()) != 0 {
				t.Fatalf("C18 violated: the copy of a field-less resource %q of type %q has id %q, type %q, %d fields", bareID, ts.Name, cp.Get("id"), cp.GetType().Name, len(cp.Attrs())+len(cp.Rels()))
			}

			if nw.Get("id") != "" || nw.GetType().Name != ts.Name {
				t.Fatalf("C18 violated: New() of a field-less resource of type %q has id %q, type %q", ts.Name, nw.Get("id"), nw.GetType().Name)
			}
		}

		// One more New or Copy from the source, after everything that
		// happened to both sides: a resource of the source's type as it is now
		// (unless the harness wrote into that type behind the library's back).
		if !srcTypeScribbled {
			var third jsonapi.Resource

			again := rapid.SampledFrom([]string{"New", "Copy"}).Draw(t, "again")

			if p := oracle.Try(func() {
				if again == "New" {
					third = src.(jsonapi.Copier).New()
				} else {
					third = src.(jsonapi.Copier).Copy()
				}
			}); p != nil {
				t.Fatalf("C18 violated: a second %s of the source %s\ncase: %s\nhistory: %s", again, p, desc, strings.Join(history, "; "))
			}

			var srcType, thirdType, srcSnap, thirdSnap string

			if p := oracle.Try(func() {
				srcType, thirdType = typeContent(src.GetType()), typeContent(third.GetType())
				srcSnap, thirdSnap = oracle.SnapshotResource(src, false), oracle.SnapshotResource(third, false)
			}); p != nil {
				t.Fatalf("C18 violated: reading the source and its second %s %s\ncase: %s\nhistory: %s", again, p, desc, strings.Join(history, "; "))
			}

			if srcType != thirdType {
				t.Fatalf("C18 violated: a second %s of the source is not of the source's type\nsource: %s\n%s:    %s\ncase: %s\nhistory: %s", again, srcType, again, thirdType, desc, strings.Join(history, "; "))
			}

			if again == "Copy" && srcSnap != thirdSnap {
				t.Fatalf("C18 violated: a second copy of the source differs from it\nsource: %s\ncopy:   %s\ncase: %s\nhistory: %s", srcSnap, thirdSnap, desc, strings.Join(history, "; "))
			}
		}

		r.Case(desc+" history: "+strings.Join(history, "; "), hasShapes && inPlace > 0 && !useNew, labels...)
	}))
}

// fieldValues reads every field the resource exposes.
func fieldValues(res jsonapi.Resource) map[string]string {
	out := map[string]string{}

	for n := range res.Attrs() {
		out[n] = gen.Show(res.Get(n))
	}

	for n := range res.Rels() {
		out[n] = gen.Show(res.Get(n))
	}

	return out
}

// typeContent renders a type's name and field definitions (nothing else).
func typeContent(typ jsonapi.Type) string {
	var b strings.Builder

	fmt.Fprintf(&b, "%q[", typ.Name)

	for _, n := range gen.SortedKeys(typ.Attrs) {
		a := typ.Attrs[n]
		fmt.Fprintf(&b, "%q:{%q %d %v} ", n, a.Name, a.Type, a.Nullable)
	}

	b.WriteString("][")

	for _, n := range gen.SortedKeys(typ.Rels) {
		fmt.Fprintf(&b, "%q:%s ", n, gen.RelString(typ.Rels[n]))
	}

	b.WriteString("]")

	return b.String()
}

// TestC18Type: Type.Copy is equal to and independent of its source.
func TestC18Type(t *testing.T) {
	r := rec.For("C18Type")

	rapid.Check(t, prop(r, func(t *rapid.T) {
		ts := filterType(t, 4, true)
		ts.Struct = rapid.IntRange(0, 2).Draw(t, "struct") == 0
		ss := gen.BuildSchema([]gen.TypeSpec{ts})
		src := ss.Schema.Types[0]

		// The source may already have been in use (resources created from it)
		// when it is copied.
		usedBefore := rapid.Bool().Draw(t, "usedBefore")

		var cp jsonapi.Type
		if p := oracle.Try(func() {
			if usedBefore {
				src.New()
				src.Fields()
			}

			cp = src.Copy()
		}); p != nil {
			t.Fatalf("C18 violated: Type.Copy %s", p)
		}

		// Fields() of a type lists the names of its two maps, sorted -
		// whatever the other type was asked or made to do.
		fieldsOK := func(typ *jsonapi.Type, which string) {
			want := append(gen.SortedKeys(typ.Attrs), gen.SortedKeys(typ.Rels)...)
			sort.Strings(want)

			var got []string
			if p := oracle.Try(func() { got = typ.Fields() }); p != nil {
				t.Fatalf("C18 violated: Fields() of the %s type %s", which, p)
			}

			if len(got)+len(want) > 0 && !reflect.DeepEqual(got, want) {
				t.Fatalf("C18 violated: Fields() of the %s type is %q, its maps hold %q", which, got, want)
			}
		}

		if a, b := oracle.SnapshotType(src), oracle.SnapshotType(cp); a != b {
			t.Fatalf("C18 violated: Type.Copy differs from its source\nsource: %s\ncopy:   %s", a, b)
		}

		history := []string{}

		for i := rapid.IntRange(1, 8).Draw(t, "nmut"); i > 0; i-- {
			x, y, xname := &src, &cp, "source"
			if rapid.Bool().Draw(t, "side") {
				x, y, xname = &cp, &src, "copy"
			}

			snap := oracle.SnapshotType(*y)
			op := rapid.SampledFrom([]string{"AddAttr", "AddRel", "RemoveAttr", "RemoveRel", "map-insert", "map-delete", "rename", "New"}).Draw(t, "op")
			newMsg := ""

			if p := oracle.Try(func() {
				switch op {
				case "AddAttr":
					_ = x.AddAttr(jsonapi.Attr{Name: fmt.Sprintf("n%d", i), Type: jsonapi.AttrTypeBool})
				case "AddRel":
					_ = x.AddRel(jsonapi.Rel{FromType: x.Name, FromName: fmt.Sprintf("r%d", i), ToType: "t"})
				case "RemoveAttr":
					x.RemoveAttr(ts.Attrs[0].Name)
				case "RemoveRel":
					x.RemoveRel("o")
					x.RemoveRel("m")
				case "map-insert":
					if x.Attrs != nil {
						x.Attrs["direct"] = jsonapi.Attr{Name: "direct", Type: jsonapi.AttrTypeInt}
					}

					if x.Rels != nil {
						x.Rels["directrel"] = jsonapi.Rel{FromName: "directrel", ToType: "t"}
					}
				case "map-delete":
					for k := range x.Attrs {
						delete(x.Attrs, k)
					}
				case "rename":
					x.Name += "x"
				case "New":
					// A resource created from one of the two is of that one's
					// type as it is now; for a soft type it is a view on it,
					// so a field added through the resource is an edit of x.
					res := x.New()
					if res == nil {
						newMsg = "New() returned nil"
						return
					}

					// (a struct-backed type creates wrapped structs, whose
					// type is the struct's whatever was done to x since)
					if got, want := typeContent(res.GetType()), typeContent(*x); got != want && !ts.Struct {
						newMsg = fmt.Sprintf("New() returned a resource of type %s, the type is %s", got, want)
						return
					}

					if sr, ok := res.(*jsonapi.SoftResource); ok {
						sr.AddAttr(jsonapi.Attr{Name: fmt.Sprintf("vianew%d", i), Type: jsonapi.AttrTypeString})
					}
				}
			}); p != nil {
				t.Fatalf("C18 violated: %s on the %s type: %s", op, xname, p)
			}

			if newMsg != "" {
				t.Fatalf("C18 violated: on the %s type (source used before the copy: %v): %s\nhistory: %s", xname, usedBefore, newMsg, strings.Join(history, "; "))
			}

			history = append(history, op+" on the "+xname)

			if rapid.Bool().Draw(t, "askfields") {
				fieldsOK(x, xname)
			}

			fieldsOK(y, "other")

			if after := oracle.SnapshotType(*y); after != snap {
				t.Fatalf("C18 violated: %s on the %s type changed the other one\nbefore: %s\nafter:  %s\nhistory: %s", op, xname, snap, after, strings.Join(history, "; "))
			}
		}

		r.Case(ts.String()+" history: "+strings.Join(history, "; "), len(history) >= 2, fmt.Sprintf("struct:%v", ts.Struct))
	}))
}

func TestC18Regress(t *testing.T) {
	ts := gen.TypeSpec{
		Name:  "t",
		Attrs: []jsonapi.Attr{{Name: "by", Type: jsonapi.AttrTypeBytes}, {Name: "byn", Type: jsonapi.AttrTypeBytes, Nullable: true}},
		Rels:  []jsonapi.Rel{{FromType: "t", FromName: "m", ToType: "t"}},
	}

	for _, wrappedSrc := range []bool{false, true} {
		name := "soft"
		if wrappedSrc {
			name = "wrapped"
		}

		t.Run(name, func(t *testing.T) {
			pb := []byte{9, 8}
			vals := map[string]any{"id": "id1", "by": []byte{3, 1, 2}, "byn": &pb, "m": []string{"c", "a", "b"}}
			soft, wrapped := twins(&ts, vals)

			src := soft
			if wrappedSrc {
				src = wrapped
			}

			cp := src.(jsonapi.Copier).Copy()

			if msg := readBack(&ts, vals, cp, "Copy()"); msg != "" {
				t.Fatalf("C18 violated: the copy differs from its source: %s", msg)
			}

			snap := oracle.SnapshotResource(cp, false)

			src.Get("by").([]byte)[0] = 0xee
			(*src.Get("byn").(*[]byte))[0] = 0xee
			src.Get("m").([]string)[0] = "mutated"
			_ = jsonapi.MarshalResource(src, "", []string{"m"}, map[string][]string{"t": {"m"}})

			if after := oracle.SnapshotResource(cp, false); after != snap {
				t.Fatalf("C18 violated: mutating slices of the source changed the copy\nbefore: %s\nafter:  %s", snap, after)
			}
		})
	}
}

package props

import (
	"fmt"
	"reflect"
	"sort"
	"strings"
	"testing"
	"time"

	"github.com/mfcochauxlaberge/jsonapi"
	"pgregory.net/rapid"

	"verif/harness/gen"
	"verif/harness/kf"
	"verif/harness/oracle"
	"verif/harness/rec"
)

// C17 — resources read back what was written, whichever implementation.

const sigEqualAttrNames = "equal-ignores-attr-names"

// readBack checks one resource against the model: last value set or zero.
func readBack(ts *gen.TypeSpec, model map[string]any, res jsonapi.Resource, impl string) string {
	var msg string

	if p := oracle.Try(func() {
		if n := res.GetType().Name; n != ts.Name {
			msg = fmt.Sprintf("%s: type name %q, want %q", impl, n, ts.Name)
			return
		}

		if id, _ := res.Get("id").(string); id != model["id"].(string) {
			msg = fmt.Sprintf("%s: id %q, want %q", impl, res.Get("id"), model["id"])
			return
		}

		attrs, rels := res.Attrs(), res.Rels()
		if len(attrs) != len(ts.Attrs) || len(rels) != len(ts.Rels) {
			msg = fmt.Sprintf("%s: exposes %d attributes and %d relationships, the type has %d and %d", impl, len(attrs), len(rels), len(ts.Attrs), len(ts.Rels))
			return
		}

		for _, a := range ts.Attrs {
			if got, ok := attrs[a.Name]; !ok || got != a {
				msg = fmt.Sprintf("%s: attribute %q is defined as %+v (present=%v), want %+v", impl, a.Name, got, ok, a)
				return
			}

			want, set := model[a.Name]
			if !set {
				want = gen.ZeroValue(a)
			}

			got := res.Get(a.Name)
			if ok, why := oracle.SameValue(a, want, got); !ok || !sameZone(want, got) {
				if isNilValue(want) && isNilValue(got) {
					continue
				}

				if ok {
					why = "same instant but another zone offset: the value read is not the value that was set"
				}

				msg = fmt.Sprintf("%s: attribute %q (%s) reads %s, want %s: %s", impl, a.Name, gen.KindName(a.Type, a.Nullable), gen.Show(got), gen.Show(want), why)

				return
			}
		}

		for _, r := range ts.Rels {
			got, ok := rels[r.FromName]
			if !ok || got.FromName != r.FromName || got.ToOne != r.ToOne || got.ToType != r.ToType || got.ToName != r.ToName || got.FromType != r.FromType {
				msg = fmt.Sprintf("%s: relationship %q is defined as %s (present=%v), want %s", impl, r.FromName, gen.RelString(got), ok, gen.RelString(r))
				return
			}

			want, set := model[r.FromName]
			if !set {
				if r.ToOne {
					want = ""
				} else {
					want = []string{}
				}
			}

			v := res.Get(r.FromName)

			if r.ToOne {
				if s, ok := v.(string); !ok || s != want.(string) {
					msg = fmt.Sprintf("%s: to-one %q reads %s, want %q", impl, r.FromName, gen.Show(v), want)
					return
				}
			} else {
				l, ok := v.([]string)
				if !ok || len(l) != len(want.([]string)) || (len(l) > 0 && !reflect.DeepEqual(l, want)) {
					msg = fmt.Sprintf("%s: to-many %q reads %s, want %q", impl, r.FromName, gen.Show(v), want)
					return
				}
			}
		}
	}); p != nil {
		return impl + ": " + p.String()
	}

	return msg
}

// sameZone: for time values, "the value most recently set" includes its zone
// offset (two resources given the same calls must be indistinguishable).
func sameZone(a, b any) bool {
	an, av := gen.Deref(a)
	bn, bv := gen.Deref(b)

	if an || bn {
		return true
	}

	at, ok1 := av.(time.Time)
	bt, ok2 := bv.(time.Time)

	if !ok1 || !ok2 {
		return true
	}

	_, ao := at.Zone()
	_, bo := bt.Zone()

	return ao == bo
}

// renameType gives the type drawn by filterType (always "t") another name:
// type names are free text, also when they begin like a keyword of the tag
// language ("rel", "attr").
func renameType(t *rapid.T, ts *gen.TypeSpec) {
	name := rapid.SampledFrom([]string{"t", "t", "relatives", "rel-x", "attrs", "relx", "ids"}).Draw(t, "typename")

	for i := range ts.Rels {
		if ts.Rels[i].FromType == ts.Name {
			ts.Rels[i].FromType = name
		}

		if ts.Rels[i].ToType == ts.Name {
			ts.Rels[i].ToType = name
		}
	}

	ts.Name = name
}

// readBackType draws a type whose relationships carry no FromOne (a struct tag
// cannot express it, so both implementations can agree on the definition).
func readBackType(t *rapid.T) gen.TypeSpec {
	ts := filterTypeWide(t, 6, true, 300)
	renameType(t, &ts)
	if rapid.IntRange(0, 5).Draw(t, "allkinds") == 0 {
		ts.Attrs = gen.AllKindAttrs()
	}

	// Siblings: a second attribute of the same nullable kind, so that one
	// pointer value can be stored in two fields.
	for _, a := range append([]jsonapi.Attr{}, ts.Attrs...) {
		if a.Nullable && rapid.Bool().Draw(t, "sibling") {
			ts.Attrs = append(ts.Attrs, jsonapi.Attr{Name: a.Name + "sib", Type: a.Type, Nullable: true})
		}
	}

	// Some relationships name an inverse, others do not.
	for i := range ts.Rels {
		if rapid.Bool().Draw(t, "inverse") {
			ts.Rels[i].ToName = rapid.SampledFrom([]string{"inv", "back", "o", "m"}).Draw(t, "inverse-name")
		}
	}

	ts.Derived = rapid.Bool().Draw(t, "derived")

	// A type may have relationships only.
	if len(ts.Rels) > 0 && rapid.IntRange(0, 9).Draw(t, "relsonly") == 0 {
		ts.Attrs = nil

		return ts
	}

	// Names are case-sensitive: an attribute whose name only differs from
	// another one's by letter case is a field of its own (of any kind).
	have := map[string]bool{}
	for _, a := range ts.Attrs {
		have[a.Name] = true
	}

	for _, a := range append([]jsonapi.Attr{}, ts.Attrs...) {
		if up := strings.ToUpper(a.Name); up != a.Name && !have[up] && rapid.IntRange(0, 3).Draw(t, "casevariant") == 0 {
			have[up] = true

			ts.Attrs = append(ts.Attrs, jsonapi.Attr{Name: up, Type: rapid.SampledFrom(gen.Kinds).Draw(t, "casevariant-kind"), Nullable: rapid.Bool().Draw(t, "casevariant-nullable")})
		}
	}

	return ts
}

func TestC17ReadBack(t *testing.T) {
	r := rec.For("C17ReadBack")

	rapid.Check(t, prop(r, func(t *rapid.T) {
		ts := readBackType(t)
		soft, wrapped := twins(&ts, map[string]any{})

		// The soft resource may also come from the Type value's own New (the
		// type possibly derived from another one that was already in use).
		if rapid.Bool().Draw(t, "viaTypeNew") {
			st := ts
			st.Struct = false
			typ := gen.SoftTypeOf(&st)

			if p := oracle.Try(func() { soft = typ.New() }); p != nil {
				t.Fatalf("C17 violated: Type.New %s\ntype: %s", p, ts)
			}
		}

		model := map[string]any{"id": ""}
		history := []string{}
		kinds := map[string]bool{}
		nilTransitions := 0
		sets := 0
		steps := 0

		do := func(desc string, f func(res jsonapi.Resource)) {
			history = append(history, desc)

			for _, c := range []struct {
				impl string
				res  jsonapi.Resource
			}{{"soft", soft}, {"wrapped", wrapped}} {
				if p := oracle.Try(func() { f(c.res) }); p != nil {
					t.Fatalf("C17 violated: %s on the %s resource: %s\ntype: %s\nhistory: %s", desc, c.impl, p, ts, strings.Join(history, "; "))
				}
			}
		}

		check := func() {
			for _, c := range []struct {
				impl string
				res  jsonapi.Resource
			}{{"soft", soft}, {"wrapped", wrapped}} {
				if msg := readBack(&ts, model, c.res, c.impl); msg != "" {
					t.Fatalf("C17 violated: %s\ntype: %s\nhistory: %s", msg, ts, strings.Join(history, "; "))
				}
			}
		}

		check() // a freshly created resource: name, fields, zero values

		t.Repeat(map[string]func(*rapid.T){
			"SetAttr": func(t *rapid.T) {
				if len(ts.Attrs) == 0 {
					t.Skip("no attribute")
				}

				a := ts.Attrs[rapid.IntRange(0, len(ts.Attrs)-1).Draw(t, "attr")]
				v := gen.Value(t, a, "val")

				if a.Nullable {
					was, _ := gen.Deref(model[a.Name])
					is, _ := gen.Deref(v)

					if _, set := model[a.Name]; (!set || was) != is {
						nilTransitions++
					}
				}

				model[a.Name] = gen.Clone(v)
				kinds[gen.KindName(a.Type, a.Nullable)] = true
				sets++

				if a.Type == jsonapi.AttrTypeBytes && !a.Nullable && rapid.IntRange(0, 4).Draw(t, "nilbytes") == 0 {
					// The empty byte string as a nil slice: a well-typed value
					// like any other (it reads back as empty).
					model[a.Name] = []byte{}

					do(fmt.Sprintf("Set(%q, []byte(nil))", a.Name), func(res jsonapi.Resource) { res.Set(a.Name, []byte(nil)) })

					return
				}

				do(fmt.Sprintf("Set(%q, %s)", a.Name, gen.Show(v)), func(res jsonapi.Resource) { res.Set(a.Name, gen.Clone(v)) })
			},
			"SetSamePointerTwice": func(t *rapid.T) {
				// One pointer value stored in an attribute and in its sibling
				// (per resource); a later Set of one must not change the other.
				pairs := [][2]jsonapi.Attr{}

				for _, a := range ts.Attrs {
					if sib, ok := ts.Attr(a.Name + "sib"); ok {
						pairs = append(pairs, [2]jsonapi.Attr{a, sib})
					}
				}

				if len(pairs) == 0 {
					t.Skip("no sibling attributes")
				}

				pr := pairs[rapid.IntRange(0, len(pairs)-1).Draw(t, "pair")]
				base := gen.BaseValue(t, pr[0].Type, "shared")
				model[pr[0].Name] = gen.PtrTo(base)
				model[pr[1].Name] = gen.PtrTo(base)
				kinds[gen.KindName(pr[0].Type, true)] = true
				sets += 2

				do(fmt.Sprintf("p := %s; Set(%q, p); Set(%q, p)", gen.Show(gen.PtrTo(base)), pr[0].Name, pr[1].Name), func(res jsonapi.Resource) {
					p := gen.PtrTo(gen.Clone(base))
					res.Set(pr[0].Name, p)
					res.Set(pr[1].Name, p)
				})
			},
			"SetUntypedNil": func(t *rapid.T) {
				nullable := []jsonapi.Attr{}
				for _, a := range ts.Attrs {
					if a.Nullable {
						nullable = append(nullable, a)
					}
				}

				if len(nullable) == 0 {
					t.Skip("no nullable attribute")
				}

				a := nullable[rapid.IntRange(0, len(nullable)-1).Draw(t, "attr")]
				if was, _ := gen.Deref(model[a.Name]); !was {
					nilTransitions++
				}

				model[a.Name] = nil
				sets++

				do(fmt.Sprintf("Set(%q, nil)", a.Name), func(res jsonapi.Resource) { res.Set(a.Name, nil) })
			},
			"SetRel": func(t *rapid.T) {
				if len(ts.Rels) == 0 {
					t.Skip("no relationship")
				}

				rel := ts.Rels[rapid.IntRange(0, len(ts.Rels)-1).Draw(t, "rel")]
				v := gen.RelIDs(t, rel, "ids", 4, false)
				model[rel.FromName] = gen.Clone(v)
				sets++

				do(fmt.Sprintf("Set(%q, %s)", rel.FromName, gen.Show(v)), func(res jsonapi.Resource) { res.Set(rel.FromName, gen.Clone(v)) })
			},
			"SetID": func(t *rapid.T) {
				id := gen.IDString(t, "id", true)
				model["id"] = id

				do(fmt.Sprintf("Set(\"id\", %q)", id), func(res jsonapi.Resource) { res.Set("id", id) })
			},
			"New": func(t *rapid.T) {
				// New returns a zero-valued resource of the same type; continue with it.
				history = append(history, "New()")

				var ns, nw jsonapi.Resource

				if p := oracle.Try(func() {
					ns = soft.(jsonapi.Copier).New()
					nw = wrapped.(jsonapi.Copier).New()
				}); p != nil {
					t.Fatalf("C17 violated: New() %s\nhistory: %s", p, strings.Join(history, "; "))
				}

				soft, wrapped = ns, nw
				model = map[string]any{"id": ""}
			},
			"TypeNew": func(t *rapid.T) {
				// The type a resource reports makes fresh resources: that
				// type's name and fields, all zero values, whatever the
				// resource holds at the moment.
				history = append(history, "GetType().New()")

				for _, it := range []struct {
					res  jsonapi.Resource
					impl string
				}{{soft, "soft"}, {wrapped, "wrapped"}} {
					var fresh jsonapi.Resource

					if p := oracle.Try(func() {
						typ := it.res.GetType()
						fresh = typ.New()
					}); p != nil {
						t.Fatalf("C17 violated: GetType().New() %s\nhistory: %s", p, strings.Join(history, "; "))
					}

					if msg := readBack(&ts, map[string]any{"id": ""}, fresh, "fresh resource of the "+it.impl+" resource's type"); msg != "" {
						t.Fatalf("C17 violated: %s\ntype: %s\nhistory: %s", msg, ts, strings.Join(history, "; "))
					}
				}
			},
			"Equal": func(t *rapid.T) {
				// The equality helpers only read: whatever they answer, every
				// field still reads as the value most recently set.
				history = append(history, "Equal")

				if p := oracle.Try(func() {
					if !jsonapi.Equal(soft, soft) || !jsonapi.EqualStrict(wrapped, wrapped) {
						t.Fatalf("C17 violated: equality is not reflexive\ntype: %s\nhistory: %s", ts, strings.Join(history, "; "))
					}

					jsonapi.Equal(soft, wrapped)
					jsonapi.EqualStrict(wrapped, soft)
				}); p != nil {
					t.Fatalf("C17 violated: equality helper %s\ntype: %s\nhistory: %s", p, ts, strings.Join(history, "; "))
				}
			},
			"": func(t *rapid.T) {
				// A wide type (more than 64 fields) is compared in full after
				// one step in eight and at the end: every read of the library
				// walks all the fields, twice over for each field read.
				steps++
				if len(ts.Attrs) > 40 && steps%8 != 0 {
					return
				}

				check()
			},
		})
		check()

		r.Case(fmt.Sprintf("%s history: %s", ts, strings.Join(history, "; ")), sets >= 3 && len(kinds) >= 2 && nilTransitions >= 1,
			fmt.Sprintf("sets:%d", min(sets/5*5, 30)), fmt.Sprintf("nil-transitions:%d", min(nilTransitions, 3)))
	}))
}

// TestC17Equality: reflexivity, symmetry, and "never equal when differing in
// exactly one aspect" for the equality helpers.
func TestC17Equality(t *testing.T) {
	r := rec.For("C17Equality")

	rapid.Check(t, prop(r, func(t *rapid.T) {
		ts := filterType(t, 4, true)
		renameType(t, &ts)
		vals := gen.FillResource(t, gen.NewResource(&ts), &ts, "v")

		build := func(spec gen.TypeSpec, vals map[string]any, wrapped bool) jsonapi.Resource {
			s, w := twins(&spec, vals)
			if wrapped {
				return w
			}

			return s
		}

		aWrapped := rapid.Bool().Draw(t, "aWrapped")
		bWrapped := rapid.Bool().Draw(t, "bWrapped")
		a := build(ts, vals, aWrapped)

		// b: a copy of a that differs in exactly one aspect (or in none).
		ts2 := ts
		ts2.Attrs = append([]jsonapi.Attr{}, ts.Attrs...)
		ts2.Rels = append([]jsonapi.Rel{}, ts.Rels...)
		vals2 := map[string]any{}

		for k, v := range vals {
			vals2[k] = gen.Clone(v)
		}

		aspects := []string{"none", "type-name", "attr-name", "value", "id", "extra-attr", "extra-rel", "attr-kind"}
		if len(ts.Rels) > 0 {
			aspects = append(aspects, "rel-name", "rel-value", "rel-inverse", "attr-for-rel", "rel-cardinality")
		}

		if !aWrapped && !bWrapped {
			aspects = append(aspects, "fresh-vs-set")
		}

		aspect := rapid.SampledFrom(aspects).Draw(t, "aspect")
		freshPair := false
		sharedRel := ""

		switch aspect {
		case "type-name":
			ts2.Name = "u"
			for i := range ts2.Rels {
				ts2.Rels[i].FromType = "u"
			}
		case "extra-attr":
			// b has every field of a plus one more attribute (holding its zero value or not)
			extra := jsonapi.Attr{Name: "zzextra", Type: rapid.SampledFrom(gen.Kinds).Draw(t, "extrakind"), Nullable: rapid.Bool().Draw(t, "extranullable")}
			ts2.Attrs = append(ts2.Attrs, extra)

			if rapid.Bool().Draw(t, "extraset") {
				vals2["zzextra"] = gen.Value(t, extra, "extraval")
			}
		case "extra-rel":
			extra := jsonapi.Rel{FromType: ts2.Name, FromName: "zzextrarel", ToType: "t", ToOne: rapid.Bool().Draw(t, "extratoone")}
			ts2.Rels = append(ts2.Rels, extra)
		case "attr-name":
			i := rapid.IntRange(0, len(ts2.Attrs)-1).Draw(t, "i")
			old := ts2.Attrs[i].Name
			ts2.Attrs[i].Name = "zz" + old
			vals2["zz"+old] = vals2[old]
			delete(vals2, old)
		case "attr-kind":
			// The same attribute name with another kind on either side, and
			// two values that read alike when printed.
			i := rapid.IntRange(0, len(ts2.Attrs)-1).Draw(t, "i")
			pair := rapid.SampledFrom([]struct {
				k1, k2 int
				v1, v2 any
			}{
				{jsonapi.AttrTypeString, jsonapi.AttrTypeInt, "42", 42},
				{jsonapi.AttrTypeInt8, jsonapi.AttrTypeUint64, int8(7), uint64(7)},
				{jsonapi.AttrTypeInt16, jsonapi.AttrTypeInt64, int16(-3), int64(-3)},
				{jsonapi.AttrTypeString, jsonapi.AttrTypeBool, "true", true},
				{jsonapi.AttrTypeString, jsonapi.AttrTypeBytes, "[1 2 3]", []byte{1, 2, 3}},
				{jsonapi.AttrTypeUint, jsonapi.AttrTypeUint8, uint(0), uint8(0)},
				{jsonapi.AttrTypeString, jsonapi.AttrTypeTime, "0001-01-01 00:00:00 +0000 UTC", time.Time{}},
			}).Draw(t, "lookalike")

			if rapid.Bool().Draw(t, "lookalike-swap") {
				pair.k1, pair.k2, pair.v1, pair.v2 = pair.k2, pair.k1, pair.v2, pair.v1
			}

			ts.Attrs = append([]jsonapi.Attr{}, ts.Attrs...)
			ts.Attrs[i].Type, ts.Attrs[i].Nullable = pair.k1, false
			ts2.Attrs[i].Type, ts2.Attrs[i].Nullable = pair.k2, false
			vals[ts.Attrs[i].Name], vals2[ts.Attrs[i].Name] = pair.v1, pair.v2
			a = build(ts, vals, aWrapped)
		case "rel-cardinality":
			// The same relationship name, to-one here and to-many there,
			// holding the same ID (or none).
			i := rapid.IntRange(0, len(ts2.Rels)-1).Draw(t, "i")
			ts.Rels = append([]jsonapi.Rel{}, ts.Rels...)
			name := ts.Rels[i].FromName
			ts.Rels[i].ToOne, ts2.Rels[i].ToOne = true, false

			if rapid.Bool().Draw(t, "cardinality-empty") {
				vals[name], vals2[name] = "", []string{}
			} else {
				vals[name], vals2[name] = "u1", []string{"u1"}
			}

			if rapid.Bool().Draw(t, "cardinality-swap") {
				ts.Rels[i].ToOne, ts2.Rels[i].ToOne = false, true
				vals[name], vals2[name] = vals2[name], vals[name]
			}

			a = build(ts, vals, aWrapped)
		case "attr-for-rel":
			// As many fields on both sides, one of them a relationship here
			// and an attribute there.
			i := rapid.IntRange(0, len(ts2.Rels)-1).Draw(t, "i")
			old := ts2.Rels[i].FromName
			ts2.Rels = append(ts2.Rels[:i:i], ts2.Rels[i+1:]...)
			delete(vals2, old)
			name := rapid.SampledFrom([]string{"zzswap", old, "0swap"}).Draw(t, "swapname")
			ts2.Attrs = append(ts2.Attrs, jsonapi.Attr{Name: name, Type: jsonapi.AttrTypeString})
			sort.Slice(ts2.Attrs, func(x, y int) bool { return ts2.Attrs[x].Name < ts2.Attrs[y].Name })
			vals2[name] = "x"
		case "fresh-vs-set":
			// Two soft resources made by the same Type value, the first one
			// never touched, the second one holding a value that is not the
			// zero value.
			freshPair = true
		case "rel-inverse":
			// a has one end of a two-way relationship of the type with
			// itself, b the other end (same cardinality, same value): two
			// different field names.
			i := rapid.IntRange(0, len(ts2.Rels)-1).Draw(t, "i")
			ts.Rels = append([]jsonapi.Rel{}, ts.Rels...)
			old := ts.Rels[i].FromName
			ts.Rels[i].ToType, ts.Rels[i].ToName, ts.Rels[i].FromOne = ts.Name, "zzinv", ts.Rels[i].ToOne
			ts2.Rels[i] = ts.Rels[i]
			ts2.Rels[i].FromName, ts2.Rels[i].ToName = "zzinv", old
			vals2["zzinv"] = vals2[old]
			delete(vals2, old)
			a = build(ts, vals, aWrapped)
		case "rel-name":
			i := rapid.IntRange(0, len(ts2.Rels)-1).Draw(t, "i")
			old := ts2.Rels[i].FromName
			ts2.Rels[i].FromName = "zz" + old
			vals2["zz"+old] = vals2[old]
			delete(vals2, old)
		case "value":
			i := rapid.IntRange(0, len(ts2.Attrs)-1).Draw(t, "i")
			at := ts2.Attrs[i]
			isNil, base := gen.Deref(vals2[at.Name])

			if at.Nullable && rapid.IntRange(0, 2).Draw(t, "nilVsZero") == 0 {
				// null on one side, a pointer to the kind's zero value (empty
				// string, 0, false, zero time, no bytes) on the other
				zero := gen.PtrTo(gen.ZeroValue(jsonapi.Attr{Type: at.Type}))
				if rapid.Bool().Draw(t, "nilSide") {
					vals[at.Name], vals2[at.Name] = gen.TypedNil(at.Type), zero
				} else {
					vals[at.Name], vals2[at.Name] = zero, gen.TypedNil(at.Type)
				}

				a = build(ts, vals, aWrapped)
			} else if isNil {
				vals2[at.Name] = gen.PtrTo(gen.BaseValue(t, at.Type, "other"))
			} else {
				other := differentValue(t, base)
				if at.Nullable {
					other = gen.PtrTo(other)
				}

				vals2[at.Name] = other
			}
		case "rel-value":
			i := rapid.IntRange(0, len(ts2.Rels)-1).Draw(t, "i")
			rel := ts2.Rels[i]

			if rel.ToOne {
				vals2[rel.FromName] = vals2[rel.FromName].(string) + "x"
			} else {
				// One more ID, or two different lists that read alike when
				// written out (IDs with spaces, an empty ID against no ID).
				switch rapid.IntRange(0, 5).Draw(t, "manyvariant") {
				case 5:
					// one list is the beginning of the other, in the same
					// array (a caller cut it from the list it held)
					whole := []string{"k1", "k2", "k3"}
					if rapid.Bool().Draw(t, "prefix-side") {
						vals[rel.FromName], vals2[rel.FromName] = whole, whole[:rapid.IntRange(1, 2).Draw(t, "prefix-len")]
					} else {
						vals[rel.FromName], vals2[rel.FromName] = whole[:rapid.IntRange(1, 2).Draw(t, "prefix-len")], whole
					}

					// (given to the resources as they are, not as copies)
					sharedRel = rel.FromName
				case 0:
					vals[rel.FromName], vals2[rel.FromName] = []string{"p q", "r"}, []string{"p", "q r"}
				case 1:
					vals[rel.FromName], vals2[rel.FromName] = []string{"p", "q"}, []string{"p q"}
				case 2:
					vals[rel.FromName], vals2[rel.FromName] = []string{}, []string{""}
				case 3:
					vals[rel.FromName], vals2[rel.FromName] = []string{"a,b"}, []string{"a", "b"}
				default:
					vals2[rel.FromName] = append(append([]string{}, vals2[rel.FromName].([]string)...), "extra")
				}

				a = build(ts, vals, aWrapped)
			}
		case "id":
			vals2["id"] = vals2["id"].(string) + "x"

			// ... or one of the two has no ID at all
			if rapid.Bool().Draw(t, "emptyid") {
				if vals["id"].(string) != "" {
					vals2["id"] = ""
				} else {
					vals2["id"] = "some-id"
				}
			}
		}

		b := build(ts2, vals2, bWrapped)

		if sharedRel != "" {
			a.Set(sharedRel, vals[sharedRel])
			b.Set(sharedRel, vals2[sharedRel])
		}

		if freshPair {
			st := ts
			st.Struct = false
			typ := gen.SoftTypeOf(&st)
			a, b = typ.New(), typ.New()
			at := ts.Attrs[rapid.IntRange(0, len(ts.Attrs)-1).Draw(t, "fresh-attr")]
			_, zero := gen.Deref(gen.ZeroValue(jsonapi.Attr{Type: at.Type}))
			other := differentValue(t, zero)

			if at.Nullable {
				other = gen.PtrTo(other)
			}

			b.Set(at.Name, other)
			vals, vals2 = map[string]any{"id": ""}, map[string]any{"id": "", at.Name: other}
		}

		desc := fmt.Sprintf("%s %s aspect=%s a.wrapped=%v b.wrapped=%v b=%s %s", ts, gen.ShowVals(vals), aspect, aWrapped, bWrapped, ts2, gen.ShowVals(vals2))

		var eqAA, eqBB, eqAB, eqBA, sAA, sBB, sAB, sBA bool

		if p := oracle.Try(func() {
			// (across first: nothing has looked at either resource yet)
			eqAB, eqBA = jsonapi.Equal(a, b), jsonapi.Equal(b, a)
			eqAA, eqBB = jsonapi.Equal(a, a), jsonapi.Equal(b, b)
			sAA, sBB = jsonapi.EqualStrict(a, a), jsonapi.EqualStrict(b, b)
			sAB, sBA = jsonapi.EqualStrict(a, b), jsonapi.EqualStrict(b, a)
		}); p != nil {
			// Same recorded root cause: Equal reads attribute attr1.Name from the
			// second resource without having compared the names, which makes a
			// Wrapper panic when it has no such attribute.
			if aspect == "attr-name" && p.In("Equal") && p.In("getField") && strings.Contains(fmt.Sprint(p.Value), "does not exist") {
				exclude(sigEqualAttrNames)
			}

			t.Fatalf("C17 violated: equality helpers %s\ncase: %s", p, desc)
		}

		if !eqAA || !eqBB || !sAA || !sBB {
			t.Fatalf("C17 violated: equality is not reflexive: Equal(a,a)=%v Equal(b,b)=%v EqualStrict(a,a)=%v EqualStrict(b,b)=%v\ncase: %s", eqAA, eqBB, sAA, sBB, desc)
		}

		if eqAB != eqBA || sAB != sBA {
			t.Fatalf("C17 violated: equality is not symmetric: Equal %v/%v EqualStrict %v/%v\ncase: %s", eqAB, eqBA, sAB, sBA, desc)
		}

		switch aspect {
		case "none":
		case "id":
			if sAB {
				t.Fatalf("C17 violated: EqualStrict holds between resources with different IDs\ncase: %s", desc)
			}
		default:
			if eqAB || sAB {
				if aspect == "attr-name" {
					// Recorded finding: Equal does not compare attribute names
					// (pinned by the repository's TestEqual).
					exclude(sigEqualAttrNames)
				}

				t.Fatalf("C17 violated: Equal=%v EqualStrict=%v between resources that differ in %s\ncase: %s", eqAB, sAB, aspect, desc)
			}
		}

		r.Case(desc, aspect != "none", "aspect:"+aspect, fmt.Sprintf("impls:%v/%v", aWrapped, bWrapped))
	}))
}

// differentValue returns a base value of the same kind that is certainly a
// different value (another instant, other bytes, ...).
func differentValue(t *rapid.T, base any) any {
	for i := 0; i < 50; i++ {
		var c any

		switch v := base.(type) {
		case string:
			c = v + "x"
		case []byte:
			c = append(append([]byte{}, v...), 1)
		case bool:
			c = !v
		default:
			c = gen.BaseValue(t, kindOf(base), "diff")
		}

		if ok, _ := oracle.SameValue(jsonapi.Attr{Type: kindOf(base)}, base, c); !ok {
			return c
		}
	}

	panic("could not draw a different value")
}

func kindOf(base any) int {
	for _, k := range gen.Kinds {
		if reflect.TypeOf(base) == gen.GoTypeOf(k, false) {
			return k
		}
	}

	panic(fmt.Sprintf("kindOf(%T)", base))
}

func TestC17Regress(t *testing.T) {
	t.Run("equal-ignores-attribute-names", func(t *testing.T) {
		t1 := gen.TypeSpec{Name: "t", Attrs: []jsonapi.Attr{{Name: "a", Type: jsonapi.AttrTypeInt}}}
		t2 := gen.TypeSpec{Name: "t", Attrs: []jsonapi.Attr{{Name: "b", Type: jsonapi.AttrTypeInt}}}
		r1, _ := twins(&t1, map[string]any{"id": "1", "a": 5})
		r2, _ := twins(&t2, map[string]any{"id": "1", "b": 5})

		if jsonapi.Equal(r1, r2) || jsonapi.EqualStrict(r1, r2) {
			if kf.Known(sigEqualAttrNames) {
				kf.Announce(sigEqualAttrNames)
				return
			}

			t.Fatalf("C17 violated: Equal holds between resources whose only attribute is named differently")
		}
	})

	t.Run("equal-ignores-relationship-names", func(t *testing.T) {
		t1 := gen.TypeSpec{Name: "t", Rels: []jsonapi.Rel{{FromType: "t", FromName: "a", ToType: "t", ToOne: true}}}
		t2 := gen.TypeSpec{Name: "t", Rels: []jsonapi.Rel{{FromType: "t", FromName: "b", ToType: "t", ToOne: true}}}
		r1, _ := twins(&t1, map[string]any{"id": "1", "a": "x"})
		r2, _ := twins(&t2, map[string]any{"id": "1", "b": "x"})

		if jsonapi.Equal(r1, r2) {
			t.Fatalf("C17 violated: Equal holds between resources whose only relationship is named differently")
		}
	})
}

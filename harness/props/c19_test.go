package props

import (
	"fmt"
	"math"
	"reflect"
	"sort"
	"strings"
	"testing"

	"github.com/mfcochauxlaberge/jsonapi"
	"pgregory.net/rapid"

	"verif/harness/gen"
	"verif/harness/oracle"
	"verif/harness/rec"
)

// C19 — SoftCollection behaves as an ordered in-memory store.

type colItem struct {
	id   string
	vals map[string]any
	skip []string // fields whose stored value is not compared (cross-kind name collision at Add)
}

type colModel struct {
	attrs map[string]jsonapi.Attr
	rels  map[string]jsonapi.Rel
	items []*colItem
}

func (m *colModel) String() string {
	parts := []string{}
	for _, it := range m.items {
		parts = append(parts, it.id+gen.ShowVals(it.vals))
	}

	an := []string{}
	for _, n := range gen.SortedKeys(m.attrs) {
		an = append(an, n+":"+gen.KindName(m.attrs[n].Type, m.attrs[n].Nullable))
	}

	rn := []string{}

	for _, n := range gen.SortedKeys(m.rels) {
		c := "N"
		if m.rels[n].ToOne {
			c = "1"
		}

		rn = append(rn, n+":"+c)
	}

	return fmt.Sprintf("type{%s | %s} items[%s]", strings.Join(an, " "), strings.Join(rn, " "), strings.Join(parts, " "))
}

// dropStale removes stored values of fields the type no longer has, or whose
// definition changed (a stored resource reads the zero value of a new field).
func (m *colModel) dropField(name string) {
	for _, it := range m.items {
		delete(it.vals, name)
	}
}

var c19Kinds = []jsonapi.Attr{
	{Type: jsonapi.AttrTypeInt}, {Type: jsonapi.AttrTypeString}, {Type: jsonapi.AttrTypeString, Nullable: true},
	{Type: jsonapi.AttrTypeBytes}, {Type: jsonapi.AttrTypeBool}, {Type: jsonapi.AttrTypeUint64, Nullable: true}, {Type: jsonapi.AttrTypeTime},
	{Type: jsonapi.AttrTypeBytes, Nullable: true}, {Type: jsonapi.AttrTypeTime, Nullable: true}, {Type: jsonapi.AttrTypeBool, Nullable: true}, {Type: jsonapi.AttrTypeInt8},
}

// drawColType draws a type over small name pools. crossKind: the attribute
// named "m" and the relationship named "p" may appear, which collide with the
// usual relationship "m" / attribute "p" of another type.
func drawColType(t *rapid.T, label string, crossKind ...bool) gen.TypeSpec {
	ts := gen.TypeSpec{Name: "t"}

	if len(crossKind) > 0 && crossKind[0] && rapid.IntRange(0, 3).Draw(t, label+"-cross") == 0 {
		if rapid.Bool().Draw(t, label+"-crossattr") {
			k := rapid.SampledFrom(c19Kinds).Draw(t, label+"-kind-cross")
			ts.Attrs = append(ts.Attrs, jsonapi.Attr{Name: "m", Type: k.Type, Nullable: k.Nullable})
		} else {
			ts.Rels = append(ts.Rels, jsonapi.Rel{FromType: "t", FromName: "p", ToType: "t", ToOne: rapid.Bool().Draw(t, label+"-crossToOne")})
		}

		return ts
	}

	// (P and M are names of their own, not p and m in another letter case)
	for _, n := range []string{"P", "p", "q", "s"} {
		if n == "P" && rapid.IntRange(0, 3).Draw(t, label+"-has-P-really") != 0 {
			continue
		}

		if rapid.Bool().Draw(t, label+"-has-"+n) {
			k := rapid.SampledFrom(c19Kinds).Draw(t, label+"-kind-"+n)
			ts.Attrs = append(ts.Attrs, jsonapi.Attr{Name: n, Type: k.Type, Nullable: k.Nullable})
		}
	}

	for _, n := range []string{"M", "m", "o"} {
		if n == "M" && rapid.IntRange(0, 3).Draw(t, label+"-has-M-really") != 0 {
			continue
		}

		if rapid.Bool().Draw(t, label+"-has-"+n) {
			ts.Rels = append(ts.Rels, jsonapi.Rel{FromType: "t", FromName: n, ToType: "t", ToOne: rapid.Bool().Draw(t, label+"-toOne-"+n)})
		}
	}

	return ts
}

func TestC19Store(t *testing.T) {
	r := rec.For("C19Store")

	rapid.Check(t, prop(r, func(t *rapid.T) {
		base := drawColType(t, "base")
		// (a hand-made type may have left the map of a kind of field it
		// does not have unallocated; the property is about collections
		// whose type has been set, so it always is)
		base.NilMaps = rapid.Bool().Draw(t, "nilmaps")
		typ := gen.SoftTypeOf(&base)

		// One time in four the type is the one a wrapped struct reports (as
		// it comes, not a copy); structs of that Go type are added later on.
		fromWrapper := rapid.IntRange(0, 3).Draw(t, "type-from-wrapper") == 0
		if fromWrapper {
			bs := base
			bs.Struct = true
			typ = gen.NewResource(&gen.BuildSchema([]gen.TypeSpec{bs}).Types[0]).GetType()
		}

		col := &jsonapi.SoftCollection{}
		col.SetType(&typ)

		model := &colModel{attrs: map[string]jsonapi.Attr{}, rels: map[string]jsonapi.Rel{}}
		for _, a := range base.Attrs {
			model.attrs[a.Name] = a
		}

		for _, rel := range base.Rels {
			model.rels[rel.FromName] = rel
		}

		idPool := []string{"a", "b", "c", "d", ""} // "": a resource whose ID is missing
		var (
			sharedType *jsonapi.Type
			sharedSpec gen.TypeSpec
		)

		batchIDs := []string{}
		batchSeq := 0
		bulk := rapid.IntRange(0, 3).Draw(t, "bulk") == 0
		history := []string{}
		adds, hits, typeChanges := 0, 0, 0

		type source struct {
			res jsonapi.Resource
			ts  gen.TypeSpec
		}

		sources := []source{}

		fail := func(format string, args ...any) {
			t.Fatalf("C19 violated: %s\nmodel: %s\nhistory: %s", fmt.Sprintf(format, args...), model, strings.Join(history, "; "))
		}

		do := func(desc string, f func()) {
			history = append(history, desc)

			if p := oracle.Try(f); p != nil {
				fail("%s: %s", desc, p)
			}
		}

		t.Repeat(map[string]func(*rapid.T){
			"Add": func(t *rapid.T) {
				ts := drawColType(t, "add", true)
				if rapid.Bool().Draw(t, "sameType") {
					// a resource of exactly the collection's current type
					ts = gen.TypeSpec{Name: "t"}
					for _, n := range gen.SortedKeys(model.attrs) {
						ts.Attrs = append(ts.Attrs, model.attrs[n])
					}

					for _, n := range gen.SortedKeys(model.rels) {
						ts.Rels = append(ts.Rels, model.rels[n])
					}
				}

				ts.Struct = rapid.Bool().Draw(t, "wrapped")

				// (a struct of the Go type the collection's type was first
				// taken from, whatever the collection's type has become)
				if fromWrapper && rapid.IntRange(0, 2).Draw(t, "baseStruct") == 0 {
					ts = base
					ts.NilMaps = false
					ts.Struct = true
				}

				var spec *gen.TypeSpec

				if ts.Struct {
					spec = &gen.BuildSchema([]gen.TypeSpec{ts}).Types[0]
				} else {
					spec = &ts
				}

				res := gen.NewResource(spec)

				// Several soft resources may share one *Type value (resources
				// of one model): the pointer of an earlier Add is used again.
				if !ts.Struct && sharedType != nil && rapid.IntRange(0, 2).Draw(t, "sharedType") == 0 {
					ts = sharedSpec
					spec = &ts
					res = &jsonapi.SoftResource{Type: sharedType}
				} else if sr, ok := res.(*jsonapi.SoftResource); ok && !ts.Struct {
					sharedType, sharedSpec = sr.Type, ts
				}

				// A soft resource made from the collection's own type pointer
				// (col.Type.New()), which is how a user creates an element of
				// exactly the collection's type.
				if !ts.Struct && rapid.Bool().Draw(t, "fromColType") {
					ts = gen.TypeSpec{Name: "t"}
					for _, n := range gen.SortedKeys(model.attrs) {
						ts.Attrs = append(ts.Attrs, model.attrs[n])
					}

					for _, n := range gen.SortedKeys(model.rels) {
						ts.Rels = append(ts.Rels, model.rels[n])
					}

					spec = &ts
					res = col.Type.New()
				}
				vals := gen.FillResource(t, res, spec, "val")
				id := rapid.SampledFrom(idPool).Draw(t, "id")
				res.Set("id", id)

				if adds > 0 {
					for _, a := range ts.Attrs {
						if _, ok := model.attrs[a.Name]; !ok {
							typeChanges++
						}
					}
				}

				// Model: extend the type with the fields it lacks, then snapshot
				// the values whose definition matches the collection's.
				item := &colItem{id: id, vals: map[string]any{}}

				for _, a := range ts.Attrs {
					if _, taken := model.rels[a.Name]; taken {
						// The name is a relationship of the collection: the type is
						// not extended and the stored value of that one field is not
						// compared (DESIGN §8.10).
						item.skip = append(item.skip, a.Name)
						continue
					}

					if _, ok := model.attrs[a.Name]; !ok {
						model.attrs[a.Name] = a
					}

					if model.attrs[a.Name] == a {
						item.vals[a.Name] = gen.Clone(vals[a.Name])
					}
				}

				for _, rel := range ts.Rels {
					if _, taken := model.attrs[rel.FromName]; taken {
						item.skip = append(item.skip, rel.FromName)
						continue
					}

					if _, ok := model.rels[rel.FromName]; !ok {
						mr := rel
						model.rels[rel.FromName] = mr
					}

					if model.rels[rel.FromName].ToOne == rel.ToOne {
						item.vals[rel.FromName] = gen.Clone(vals[rel.FromName])
					}
				}

				model.items = append(model.items, item)
				sources = append(sources, source{res, *spec})
				adds++

				do(fmt.Sprintf("Add(%s %s)", spec, gen.ShowVals(vals)), func() { col.Add(res) })
			},
			"AddOwnMember": func(t *rapid.T) {
				// What At hands out is a resource like any other: adding it
				// appends a snapshot of it.
				if len(model.items) == 0 {
					t.Skip("empty collection")
				}

				i := rapid.IntRange(0, len(model.items)-1).Draw(t, "member")
				src := model.items[i]
				cp := &colItem{id: src.id, vals: map[string]any{}, skip: append([]string{}, src.skip...)}

				for k, v := range src.vals {
					cp.vals[k] = gen.Clone(v)
				}

				model.items = append(model.items, cp)

				if p := oracle.Try(func() { col.Add(col.At(i)) }); p != nil {
					fail("Add(At(%d)) %s", i, p)
				}

				adds++
				history = append(history, fmt.Sprintf("Add(At(%d))", i))
			},
			"AddMany": func(t *rapid.T) {
				// Many plain members at once (fresh IDs, zero values), so that
				// the collection reaches sizes a single history cannot.
				if !bulk || batchSeq > 0 {
					t.Skip("no bulk addition in this history (one history in four has one)")
				}

				k := rapid.IntRange(10, 45).Draw(t, "howmany")

				for i := 0; i < k; i++ {
					id := fmt.Sprintf("m%d", batchSeq)
					batchSeq++
					batchIDs = append(batchIDs, id)
					model.items = append(model.items, &colItem{id: id, vals: map[string]any{}})

					if p := oracle.Try(func() {
						res := col.Type.New()
						res.Set("id", id)
						col.Add(res)
					}); p != nil {
						fail("AddMany: Add %s", p)
					}
				}

				adds += k
				history = append(history, fmt.Sprintf("AddMany(%d)", k))
			},
			"RemoveMany": func(t *rapid.T) {
				if len(batchIDs) == 0 {
					t.Skip("nothing was added in bulk")
				}

				k := rapid.IntRange(1, len(batchIDs)).Draw(t, "howmany")
				order := rapid.Permutation(batchIDs).Draw(t, "which")

				for _, id := range order[:k] {
					for i, it := range model.items {
						if it.id == id {
							model.items = append(model.items[:i:i], model.items[i+1:]...)
							hits++

							break
						}
					}

					if p := oracle.Try(func() { col.Remove(id) }); p != nil {
						fail("RemoveMany: Remove(%q) %s", id, p)
					}

					if col.Len() != len(model.items) {
						fail("after Remove(%q) (one of many) Len() = %d, the list has %d", id, col.Len(), len(model.items))
					}
				}

				batchIDs = append([]string{}, order[k:]...)
				history = append(history, fmt.Sprintf("RemoveMany(%d)", k))
			},
			"Remove": func(t *rapid.T) {
				id := rapid.SampledFrom(append([]string{"zz"}, idPool...)).Draw(t, "id")

				for i, it := range model.items {
					if it.id == id {
						model.items = append(model.items[:i:i], model.items[i+1:]...)
						hits++

						break
					}
				}

				do(fmt.Sprintf("Remove(%q)", id), func() { col.Remove(id) })
			},
			"AddAttr": func(t *rapid.T) {
				k := rapid.SampledFrom(c19Kinds).Draw(t, "kind")
				a := jsonapi.Attr{Name: rapid.SampledFrom([]string{"p", "q", "s", "x"}).Draw(t, "name"), Type: k.Type, Nullable: k.Nullable}
				_, dup := model.attrs[a.Name]

				if _, cross := model.rels[a.Name]; cross {
					t.Skip("the name is a relationship of the collection (cross-kind collisions are not compared)")
				}

				if !dup {
					model.attrs[a.Name] = a

					if adds > 0 {
						typeChanges++
					}
				}

				var err error

				do(fmt.Sprintf("AddAttr(%s:%s)", a.Name, gen.KindName(a.Type, a.Nullable)), func() { err = col.AddAttr(a) })

				if (err != nil) != dup {
					fail("AddAttr(%q) returned %v, duplicate=%v", a.Name, err, dup)
				}
			},
			"AddRel": func(t *rapid.T) {
				rel := jsonapi.Rel{FromType: "t", FromName: rapid.SampledFrom([]string{"m", "o", "y"}).Draw(t, "name"), ToType: "t", ToOne: rapid.Bool().Draw(t, "toOne")}
				_, dup := model.rels[rel.FromName]

				// (one end of a pair within the type - parent and children -
				// or of a pair with itself; the other end may be there already)
				if rapid.Bool().Draw(t, "inverse") {
					rel.ToName = rapid.SampledFrom([]string{"m", "o", "y", "zz"}).Draw(t, "inverse-name")
					rel.FromOne = rapid.Bool().Draw(t, "fromOne")

					if other, ok := model.rels[rel.ToName]; ok && rapid.Bool().Draw(t, "inverse-matching") {
						rel.ToOne, rel.FromOne = other.FromOne, other.ToOne
					}
				}

				if _, cross := model.attrs[rel.FromName]; cross {
					t.Skip("the name is an attribute of the collection (cross-kind collisions are not compared)")
				}

				if !dup {
					model.rels[rel.FromName] = rel

					if adds > 0 {
						typeChanges++
					}
				}

				var err error

				do(fmt.Sprintf("AddRel(%s)", gen.RelString(rel)), func() { err = col.AddRel(rel) })

				if (err != nil) != dup {
					fail("AddRel(%q) returned %v, duplicate=%v", rel.FromName, err, dup)
				}
			},
			"SetType": func(t *rapid.T) {
				// A compatible type: a copy of the current one, extended or reduced.
				nt := jsonapi.Type{Name: "t", Attrs: map[string]jsonapi.Attr{}, Rels: map[string]jsonapi.Rel{}}
				changed := false

				for _, n := range gen.SortedKeys(model.attrs) {
					if rapid.IntRange(0, 3).Draw(t, "keep-"+n) > 0 {
						nt.Attrs[n] = model.attrs[n]
					} else {
						changed = true
					}
				}

				for _, n := range gen.SortedKeys(model.rels) {
					if rapid.IntRange(0, 3).Draw(t, "keep-"+n) > 0 {
						rel := model.rels[n]

						// The same field (name and cardinality), pointing
						// somewhere else: the stored IDs stay well-typed.
						if rapid.IntRange(0, 3).Draw(t, "retarget-"+n) == 0 {
							rel.ToType = rapid.SampledFrom([]string{"t", "u", "other"}).Draw(t, "totype")
							rel.ToName = rapid.SampledFrom([]string{"", "inv", "back"}).Draw(t, "toname")
							rel.FromOne = rapid.Bool().Draw(t, "fromone")
							rel.FromType = rapid.SampledFrom([]string{"t", "", "renamed"}).Draw(t, "fromtype")
							changed = true
						}

						nt.Rels[n] = rel
					} else {
						changed = true
					}
				}

				if rapid.Bool().Draw(t, "extend") {
					if _, ok := nt.Attrs["z"]; !ok {
						nt.Attrs["z"] = jsonapi.Attr{Name: "z", Type: jsonapi.AttrTypeInt}
						changed = true
					}
				}

				for n := range model.attrs {
					if _, ok := nt.Attrs[n]; !ok {
						model.dropField(n)
					}
				}

				for n := range model.rels {
					if _, ok := nt.Rels[n]; !ok {
						model.dropField(n)
					}
				}

				model.attrs = map[string]jsonapi.Attr{}
				for n, a := range nt.Attrs {
					model.attrs[n] = a
				}

				model.rels = map[string]jsonapi.Rel{}
				for n, rel := range nt.Rels {
					model.rels[n] = rel
				}

				if changed && adds > 0 {
					typeChanges++
				}

				do(fmt.Sprintf("SetType(%s)", oracle.SnapshotType(nt)), func() { col.SetType(&nt) })
			},
			"SetOnSource": func(t *rapid.T) {
				if len(sources) == 0 {
					t.Skip("nothing was added yet")
				}

				src := sources[rapid.IntRange(0, len(sources)-1).Draw(t, "src")]
				fields := src.ts.Fields()

				if len(fields) == 0 || rapid.IntRange(0, 4).Draw(t, "id") == 0 {
					do("source.Set(id)", func() { src.res.Set("id", "changed") })
					return
				}

				f := rapid.SampledFrom(fields).Draw(t, "field")
				if a, ok := src.ts.Attr(f); ok {
					v := gen.Value(t, a, "nv")
					do(fmt.Sprintf("source.Set(%q, %s)", f, gen.Show(v)), func() { src.res.Set(f, v) })
				} else {
					rel, _ := src.ts.Rel(f)
					v := gen.RelIDs(t, rel, "nv", 3, true)
					do(fmt.Sprintf("source.Set(%q, %s)", f, gen.Show(v)), func() { src.res.Set(f, v) })
				}
			},
			"": func(t *rapid.T) {
				// The members are not read after every operation: what a
				// stored resource exposes must not depend on whether somebody
				// looked at it between two operations.
				if col.Len() != len(model.items) {
					fail("Len() = %d, the list has %d", col.Len(), len(model.items))
				}

				if rapid.IntRange(0, 2).Draw(t, "look") == 0 {
					history = append(history, "(not read)")
					return
				}

				{
					if col.Len() != len(model.items) {
						fail("Len() = %d, the list has %d", col.Len(), len(model.items))
					}

					ct := col.GetType()
					if !reflect.DeepEqual(gen.SortedKeys(ct.Attrs), gen.SortedKeys(model.attrs)) || !reflect.DeepEqual(gen.SortedKeys(ct.Rels), gen.SortedKeys(model.rels)) {
						fail("collection type has fields %q / %q, want %q / %q", gen.SortedKeys(ct.Attrs), gen.SortedKeys(ct.Rels), gen.SortedKeys(model.attrs), gen.SortedKeys(model.rels))
					}

					for _, i := range []int{-1, -5, len(model.items), len(model.items) + 3, 1 << 32, 1<<32 + 1, -(1 << 32), 1<<62 + 1, 1 << 16, 1<<8 + 1, math.MinInt64, math.MinInt64 + 1, math.MaxInt64} {
						if i >= 0 && i < len(model.items) {
							continue
						}

						// "returns nil": the interface value itself, so that callers can write At(i) == nil
						if got := col.At(i); got != nil {
							fail("At(%d) is not nil for a collection of %d (it is a %T)", i, len(model.items), got)
						}
					}

					for i, it := range model.items {
						res := col.At(i)
						if res == nil || reflect.ValueOf(res).IsNil() {
							fail("At(%d) is nil", i)
						}

						if id := res.Get("id"); id != it.id {
							fail("At(%d) has id %q, want %q", i, id, it.id)
						}

						ra, rr := res.Attrs(), res.Rels()
						if !reflect.DeepEqual(gen.SortedKeys(ra), gen.SortedKeys(model.attrs)) || !reflect.DeepEqual(gen.SortedKeys(rr), gen.SortedKeys(model.rels)) {
							fail("stored resource %d (%q) exposes %q / %q, the collection's fields are %q / %q", i, it.id,
								gen.SortedKeys(ra), gen.SortedKeys(rr), gen.SortedKeys(model.attrs), gen.SortedKeys(model.rels))
						}

						for _, n := range gen.SortedKeys(model.attrs) {
							a := model.attrs[n]
							if contains(it.skip, n) {
								continue
							}

							if ra[n] != a {
								fail("stored resource %d defines attribute %q as %+v, the collection as %+v", i, n, ra[n], a)
							}

							want, ok := it.vals[n]
							if !ok {
								want = gen.ZeroValue(a)
							}

							got := res.Get(n)
							if same, why := oracle.SameValue(a, want, got); !same && !(isNilValue(want) && isNilValue(got)) {
								fail("stored resource %d (%q): attribute %q reads %s, want %s (%s)", i, it.id, n, gen.Show(got), gen.Show(want), why)
							}
						}

						for _, n := range gen.SortedKeys(model.rels) {
							rel := model.rels[n]
							if contains(it.skip, n) {
								continue
							}

							want, ok := it.vals[n]
							got := res.Get(n)

							if rel.ToOne {
								if !ok {
									want = ""
								}

								if got != want {
									fail("stored resource %d (%q): to-one %q reads %v, want %v", i, it.id, n, got, want)
								}
							} else {
								if !ok {
									want = []string{}
								}

								g, isList := got.([]string)
								w := want.([]string)

								if !isList || len(g) != len(w) {
									fail("stored resource %d (%q): to-many %q reads %v, want %v", i, it.id, n, got, want)
								}

								gs, ws := append([]string{}, g...), append([]string{}, w...)
								sort.Strings(gs)
								sort.Strings(ws)

								if !reflect.DeepEqual(gs, ws) {
									fail("stored resource %d (%q): to-many %q reads %v, want %v", i, it.id, n, got, want)
								}
							}
						}
					}

					for _, id := range append([]string{"zz", "changed"}, idPool...) {
						var first *colItem

						firstAt := -1

						for k, it := range model.items {
							if it.id == id {
								first, firstAt = it, k
								break
							}
						}

						got := col.Resource(id, nil)
						isNil := got == nil || reflect.ValueOf(got).IsNil()

						if (first == nil) != isNil {
							fail("Resource(%q) nil=%v, the list holds it=%v", id, isNil, first != nil)
						}

						if first != nil && got.Get("id") != id {
							fail("Resource(%q) returned the resource %q", id, got.Get("id"))
						}

						// ... the first one with that ID: what At gives for
						// its position.
						if first != nil {
							if a, b := oracle.SnapshotResource(got, false), oracle.SnapshotResource(col.At(firstAt), false); a != b {
								fail("Resource(%q) is not the first element with that ID (position %d)\nResource: %s\nAt(%d):   %s", id, firstAt, a, firstAt, b)
							}
						}
					}
				}
			},
		})

		labels := []string{fmt.Sprintf("adds:%d", min(adds, 5)), fmt.Sprintf("remove-hits:%d", min(hits, 3)), fmt.Sprintf("type-changes:%d", min(typeChanges, 3))}
		r.Case(strings.Join(history, "; "), adds >= 2 && hits >= 1 && typeChanges >= 1, labels...)
	}))
}

func TestC19Regress(t *testing.T) {
	t.Run("SetType-after-Add", func(t *testing.T) {
		typ := jsonapi.Type{Name: "t", Attrs: map[string]jsonapi.Attr{"p": {Name: "p", Type: jsonapi.AttrTypeInt}}}
		col := &jsonapi.SoftCollection{}
		col.SetType(&typ)

		res := &jsonapi.SoftResource{Type: &jsonapi.Type{Name: "t", Attrs: map[string]jsonapi.Attr{"p": {Name: "p", Type: jsonapi.AttrTypeInt}}}}
		res.Set("id", "1")
		res.Set("p", 5)
		col.Add(res)

		nt := jsonapi.Type{Name: "t", Attrs: map[string]jsonapi.Attr{"p": {Name: "p", Type: jsonapi.AttrTypeInt}, "z": {Name: "z", Type: jsonapi.AttrTypeString}}}
		col.SetType(&nt)

		if got := gen.SortedKeys(col.At(0).Attrs()); !reflect.DeepEqual(got, []string{"p", "z"}) {
			t.Fatalf("C19 violated: after SetType the stored resource exposes %q, the collection's fields are [p z]", got)
		}

		if col.At(0).Get("p") != 5 || col.At(0).Get("z") != "" {
			t.Fatalf("C19 violated: values after SetType: p=%v z=%v", col.At(0).Get("p"), col.At(0).Get("z"))
		}
	})

	// A field that leaves the type and comes back is a field added after the
	// resource was stored, whether or not the resource was read in between.
	t.Run("field-removed-and-added-back-unread", func(t *testing.T) {
		typ := jsonapi.Type{Name: "t", Attrs: map[string]jsonapi.Attr{"f": {Name: "f", Type: jsonapi.AttrTypeInt}}, Rels: map[string]jsonapi.Rel{"o": {FromType: "t", FromName: "o", ToType: "t", ToOne: true}}}
		col := &jsonapi.SoftCollection{}
		col.SetType(&typ)

		res := &jsonapi.SoftResource{Type: &jsonapi.Type{Name: "t", Attrs: map[string]jsonapi.Attr{"f": {Name: "f", Type: jsonapi.AttrTypeInt}}, Rels: map[string]jsonapi.Rel{"o": {FromType: "t", FromName: "o", ToType: "t", ToOne: true}}}}
		res.Set("id", "1")
		res.Set("f", 5)
		res.Set("o", "x")
		col.Add(res)

		col.SetType(&jsonapi.Type{Name: "t", Attrs: map[string]jsonapi.Attr{}, Rels: map[string]jsonapi.Rel{}})

		if err := col.AddAttr(jsonapi.Attr{Name: "f", Type: jsonapi.AttrTypeInt}); err != nil {
			t.Fatal(err)
		}

		if err := col.AddRel(jsonapi.Rel{FromType: "t", FromName: "o", ToType: "t"}); err != nil {
			t.Fatal(err)
		}

		if got := col.At(0).Get("f"); got != 0 {
			t.Fatalf("C19 violated: attribute taken out by SetType and added back reads %v, want 0", got)
		}

		if got, ok := col.At(0).Get("o").([]string); !ok || len(got) != 0 {
			t.Fatalf("C19 violated: relationship taken out by SetType and added back as to-many reads %#v, want an empty list", col.At(0).Get("o"))
		}
	})
}

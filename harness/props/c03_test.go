package props

import (
	"fmt"
	"sort"
	"strings"
	"testing"

	"github.com/mfcochauxlaberge/jsonapi"
	"pgregory.net/rapid"

	"verif/harness/gen"
	"verif/harness/oracle"
	"verif/harness/rec"
)

// C03 — marshaled documents are well-formed JSON:API.

// twin builds a fresh resource with the same type, ID and values as m.
func twin(m gen.ResModel) jsonapi.Resource {
	res := gen.NewResource(m.TS)
	for k, v := range m.Vals {
		res.Set(k, gen.Clone(v))
	}

	return res
}

func pairKey(typ, id string) string { return fmt.Sprintf("%q %q", typ, id) }

// cursorCol is a Collection that hands out one reused object pointed at the
// member asked for.
type cursorCol struct {
	members []jsonapi.Resource
	view    *cursorView
}

// cursorView is whatever resource the cursor is on.
type cursorView struct{ jsonapi.Resource }

func (c *cursorCol) GetType() jsonapi.Type  { return jsonapi.Type{} }
func (c *cursorCol) Len() int               { return len(c.members) }
func (c *cursorCol) Add(r jsonapi.Resource) { c.members = append(c.members, r) }

func (c *cursorCol) At(i int) jsonapi.Resource {
	if i < 0 || i >= len(c.members) {
		return nil
	}

	c.view.Resource = c.members[i]

	return c.view
}

func TestC03WellFormed(t *testing.T) {
	r := rec.For("C03WellFormed")

	rapid.Check(t, prop(r, func(t *rapid.T) {
		o := docOpts
		o.NoIncluded = true
		o.MixedWrapCol = true
		c := gen.Document(t, o)

		labels := docLabels(c)

		// Primary data as the *Resources collection that Range returns.
		if c.DataKind == "resources" && rapid.Bool().Draw(t, "viaRange") {
			col := c.Doc.Data.(jsonapi.Collection)

			var ranged jsonapi.Collection
			if p := oracle.Try(func() { ranged = jsonapi.Range(col, nil, nil, []string{"id"}, 1000, 0) }); p != nil {
				t.Fatalf("generator: Range %s", p)
			}

			c.Doc.Data = ranged

			labels = append(labels, "data:via-Range")
		}

		// ... or as a collection of the caller's own making that hands out one
		// reused object, pointed at the member asked for (a cursor over
		// rows): any Collection implementation will do.
		if c.DataKind == "resources" && rapid.IntRange(0, 4).Draw(t, "viaCursor") == 0 {
			col := c.Doc.Data.(jsonapi.Collection)
			cur := &cursorCol{view: &cursorView{}}

			for i := 0; i < col.Len(); i++ {
				cur.members = append(cur.members, col.At(i))
			}

			c.Doc.Data = cur

			labels = append(labels, "data:via-cursor")
		}

		// A document that went through UnmarshalDocument has an empty, non-nil
		// Resources map; a hand-built one may have anything there.
		switch rapid.IntRange(0, 5).Draw(t, "docresources") {
		case 0:
			c.Doc.Resources = map[string]map[string]struct{}{}
		case 1:
			c.Doc.Resources = map[string]map[string]struct{}{"zz-unrelated": {"1": {}}}
		}

		if rapid.IntRange(0, 3).Draw(t, "doclinks") == 0 {
			c.Doc.Links = map[string]jsonapi.Link{"related": {HRef: gen.HostileString(t, "href"), Meta: gen.JSONObject(t, "linkmeta", 1, 2)}}

			// (the caller may have put something under "self" as well: meta
			// for the link, with or without a target)
			if rapid.Bool().Draw(t, "doclinks-self") {
				c.Doc.Links["self"] = jsonapi.Link{HRef: rapid.SampledFrom([]string{"", "", "/stale"}).Draw(t, "doclinks-self-href"), Meta: map[string]any{"k": 1}}
			}
		}

		// A sequence of Include calls: primary members, equal-content twins,
		// fresh resources, and repeats of earlier arguments.
		ncalls := rapid.IntRange(0, 10).Draw(t, "ncalls")
		if rapid.IntRange(0, 5).Draw(t, "manycalls") == 0 {
			// Long histories: an index or cache behind Include must agree
			// with the plain scan.
			ncalls = rapid.IntRange(11, 48).Draw(t, "ncalls-long")
		}
		pool := []gen.ResModel{}
		dupCall := false
		seen := map[string]bool{}

		for _, m := range c.Primary {
			seen[pairKey(m.TS.Name, m.ID())] = true
		}

		calls := []string{}

		for i := 0; i < ncalls; i++ {
			var (
				arg jsonapi.Resource
				m   gen.ResModel
			)

			// The document may be marshaled at any point of its life and
			// receive further resources afterwards.
			if rapid.IntRange(0, 6).Draw(t, "marshalNow") == 0 {
				calls = append(calls, "(marshal)")

				if p := oracle.Try(func() { _, _ = jsonapi.MarshalDocument(c.Doc, c.URL) }); p != nil {
					t.Fatalf("C03 violated: MarshalDocument %s\ncase: %s\ncalls: %v", p, c, calls)
				}
			}

			mode := rapid.IntRange(0, 4).Draw(t, "argmode")

			switch {
			case mode == 0 && len(c.Primary) > 0:
				m = c.Primary[rapid.IntRange(0, len(c.Primary)-1).Draw(t, "pidx")]
				arg = m.Res
			case mode == 1 && len(c.Primary) > 0:
				m = c.Primary[rapid.IntRange(0, len(c.Primary)-1).Draw(t, "pidx")]
				arg = twin(m)
			case mode == 2 && len(pool) > 0:
				m = pool[rapid.IntRange(0, len(pool)-1).Draw(t, "iidx")]
				arg = m.Res

				if rapid.Bool().Draw(t, "twin") {
					arg = twin(m)
				}
			default:
				ts := &c.SS.Types[rapid.IntRange(0, len(c.SS.Types)-1).Draw(t, "ftype")]
				res := gen.NewResource(ts)
				vals := gen.FillResource(t, res, ts, fmt.Sprintf("inc%d", i))

				// (a resource that has no ID yet may be included like any other)
				if rapid.IntRange(0, 7).Draw(t, "inc-noid") == 0 {
					vals["id"] = ""
					res.Set("id", "")
				}

				m = gen.ResModel{TS: ts, Vals: vals, Res: res}
				arg = res
			}

			k := pairKey(m.TS.Name, m.ID())
			if seen[k] {
				dupCall = true
			} else {
				// Only the first resource with a pair can end up in the output,
				// so it is the one the other oracles may look at.
				c.Included = append(c.Included, m)
			}

			seen[k] = true
			pool = append(pool, m)
			calls = append(calls, k)

			if p := oracle.Try(func() { c.Doc.Include(arg) }); p != nil {
				t.Fatalf("C03 violated: Include %s\ncase: %s\ncalls: %v", p, c, calls)
			}
		}

		var (
			out []byte
			err error
		)

		if p := oracle.Try(func() { out, err = jsonapi.MarshalDocument(c.Doc, c.URL) }); p != nil {
			t.Fatalf("C03 violated: MarshalDocument %s\ncase: %s\ncalls: %v", p, c, calls)
		}

		if err != nil {
			// Only a successful marshal is constrained.
			r.Case(c.String(), false, "marshal-error")
			return
		}

		// The output is looked at after other documents were marshaled (a
		// response waiting in a queue): one case in three.
		if rapid.IntRange(0, 2).Draw(t, "queued") == 0 {
			first := string(out)

			for i := 1; i <= 3; i++ {
				other := &jsonapi.Document{Meta: jsonapi.Meta{"queued": strings.Repeat("#", len(out)/i)}}
				if p := oracle.Try(func() { _, _ = jsonapi.MarshalDocument(other, c.URL) }); p != nil {
					t.Fatalf("C03 violated: MarshalDocument %s on a meta-only document\ncase: %s", p, c)
				}
			}

			if string(out) != first {
				t.Fatalf("C03 violated: the bytes returned by MarshalDocument changed when other documents were marshaled\ncase: %s\ncalls: %v\nreturned: %s\nnow: %s", c, calls, first, out)
			}
		}

		ds, derr := oracle.DecodeDocument(out)
		if derr != nil {
			t.Fatalf("C03 violated: %v\ncase: %s\ncalls: %v\noutput: %s", derr, c, calls, out)
		}

		identifiers := c.DataKind == "identifier" || c.DataKind == "identifiers"
		if verr := oracle.ValidateStructure(ds, c.PrePath, identifiers); verr != nil {
			t.Fatalf("C03 violated: %v\ncase: %s\ncalls: %v\noutput: %s", verr, c, calls, out)
		}

		// The same document marshaled once more is as well-formed (what the
		// first marshal did to the document's lists must not show).
		var again []byte

		// Half the time under another prefix: the document is the caller's and
		// PrePath is a public field that a caller may change between two calls.
		prefix2 := c.PrePath
		if rapid.Bool().Draw(t, "reprefix") {
			prefix2 = rapid.SampledFrom([]string{"", "/", "https://other", "https://h/v2/", "/q"}).Draw(t, "prefix2")
			c.Doc.PrePath = prefix2

			if prefix2 != c.PrePath {
				r.Label("second-marshal:other-prefix")
			}
		}

		if p := oracle.Try(func() { again, err = jsonapi.MarshalDocument(c.Doc, c.URL) }); p != nil || err != nil {
			t.Fatalf("C03 violated: a second MarshalDocument of the same document: %v %v\ncase: %s\ncalls: %v", p, err, c, calls)
		}

		ds2, derr2 := oracle.DecodeDocument(again)
		if derr2 == nil {
			derr2 = oracle.ValidateStructure(ds2, prefix2, identifiers)
		}

		if derr2 != nil {
			t.Fatalf("C03 violated: second marshal of the same document: %v\ncase: %s\ncalls: %v\nfirst:  %s\nsecond: %s", derr2, c, calls, out, again)
		}

		if len(ds2.Included) != len(ds.Included) {
			t.Fatalf("C03 violated: the second marshal of the same document includes %d resources, the first %d\ncase: %s\ncalls: %v\nfirst:  %s\nsecond: %s", len(ds2.Included), len(ds.Included), c, calls, out, again)
		}

		// No (type, id) pair twice across primary data and included.
		// Resource identifier objects in data are not resource objects: a full
		// resource in included for an identifier in data is what compound
		// documents of relationship endpoints are made of (false alarm
		// corrected, see DESIGN.md).
		count := map[string]int{}
		for _, ro := range ds.Included {
			count[pairKey(ro.Type, ro.ID)]++
		}

		if !identifiers {
			for _, ro := range ds.Primary {
				count[pairKey(ro.Type, ro.ID)]++
			}
		}

		keys := make([]string, 0, len(count))
		for k := range count {
			keys = append(keys, k)
		}

		sort.Strings(keys)

		for _, k := range keys {
			if count[k] > 1 {
				t.Fatalf("C03 violated: pair %s appears %d times across data and included\ncase: %s\ncalls: %v\noutput: %s", k, count[k], c, calls, out)
			}
		}

		escaped := false

		for _, ro := range append(append([]oracle.ResObj{}, ds.Primary...), ds.Included...) {
			for _, ch := range ro.ID {
				if ch < 0x20 || ch == '"' || ch == '\\' || ch == '<' || ch == '>' || ch == '&' || ch == 0x2028 || ch == 0x2029 {
					escaped = true
				}
			}
		}

		if dupCall {
			labels = append(labels, "include:duplicate-argument")
		}

		if escaped {
			labels = append(labels, "id:json-escaped")
		}

		if len(c.Errors) > 0 && c.DataKind != "nil" {
			labels = append(labels, "errors+data")
		}

		r.Case(c.String()+fmt.Sprintf("\ninclude-calls=%v", calls), dupCall || escaped || (len(c.Errors) > 0 && c.DataKind != "nil"), labels...)
	}))
}

func TestC03Regress(t *testing.T) {
	t.Run("include-primary-member-of-Resources", func(t *testing.T) {
		ss := gen.BuildSchema([]gen.TypeSpec{{Name: "a", Attrs: []jsonapi.Attr{{Name: "s", Type: jsonapi.AttrTypeString}}}})
		r1 := gen.NewResource(&ss.Types[0])
		r1.Set("id", "1")
		r2 := gen.NewResource(&ss.Types[0])
		r2.Set("id", "2")

		col := &jsonapi.Resources{}
		col.Add(r1)
		col.Add(r2)

		doc := &jsonapi.Document{Data: jsonapi.Range(col, nil, nil, []string{"id"}, 10, 0)}
		doc.Include(r1)

		out, err := jsonapi.MarshalDocument(doc, allFieldsURL(ss, "a"))
		if err != nil {
			t.Fatal(err)
		}

		ds, err := oracle.DecodeDocument(out)
		if err != nil {
			t.Fatal(err)
		}

		if len(ds.Included) != 0 {
			t.Fatalf("C03 violated: resource a/1 is in data and again in included: %s", out)
		}
	})
}

package props

import (
	"encoding/json"
	"fmt"
	"math"
	"reflect"
	"strings"
	"testing"
	"time"
	"unicode/utf8"

	"github.com/mfcochauxlaberge/jsonapi"
	"pgregory.net/rapid"

	"verif/harness/gen"
	"verif/harness/oracle"
	"verif/harness/rec"
)

// C01 — resource values survive a marshal/unmarshal round trip.

// allFieldsURL builds a URL literal that selects every field of every type of
// the schema (built directly so that hostile IDs do not have to survive URL
// parsing, which is C08's subject).
func allFieldsURL(ss *gen.SchemaSpec, fragments ...string) *jsonapi.URL {
	fields := map[string][]string{}
	for i := range ss.Types {
		fields[ss.Types[i].Name] = ss.Types[i].Fields()
	}

	return &jsonapi.URL{
		Fragments: fragments,
		ResType:   fragments[0],
		Params:    &jsonapi.Params{Fields: fields},
	}
}

func allRelData(ss *gen.SchemaSpec) map[string][]string {
	rd := map[string][]string{}

	for i := range ss.Types {
		names := []string{}
		for _, r := range ss.Types[i].Rels {
			names = append(names, r.FromName)
		}

		rd[ss.Types[i].Name] = names
	}

	return rd
}

// compareWithVals checks that got has the type name, the ID and every field
// value recorded in vals (taken before marshaling).
func compareWithVals(ts *gen.TypeSpec, vals map[string]any, got jsonapi.Resource) string {
	var msg string

	if p := oracle.Try(func() {
		if n := got.GetType().Name; n != ts.Name {
			msg = fmt.Sprintf("type name %q, want %q", n, ts.Name)
			return
		}

		if id, _ := got.Get("id").(string); id != vals["id"].(string) {
			msg = fmt.Sprintf("id %q, want %q", got.Get("id"), vals["id"])
			return
		}

		for _, a := range ts.Attrs {
			if ok, why := oracle.SameValue(a, vals[a.Name], got.Get(a.Name)); !ok {
				msg = fmt.Sprintf("attribute %q (%s): %s", a.Name, gen.KindName(a.Type, a.Nullable), why)
				return
			}
		}

		for _, r := range ts.Rels {
			want, have := vals[r.FromName], got.Get(r.FromName)
			if r.ToOne {
				if ok, why := oracle.SameRel(r, want, have); !ok {
					msg = fmt.Sprintf("relationship %q: %s", r.FromName, why)
					return
				}

				continue
			}

			h, ok := have.([]string)
			if !ok || !oracle.SameSet(want.([]string), h) {
				msg = fmt.Sprintf("relationship %q: IDs %s, want the set %s", r.FromName, gen.Show(have), gen.Show(want))
				return
			}
		}
	}); p != nil {
		return p.String()
	}

	return msg
}

// valueClasses labels the interesting value classes present in vals.
func valueClasses(ts *gen.TypeSpec, vals map[string]any) (labels []string, nonzero, special bool) {
	impl := "soft"
	if ts.Struct {
		impl = "struct"
	}

	for _, a := range ts.Attrs {
		labels = append(labels, impl+":"+gen.KindName(a.Type, a.Nullable))

		isNil, b := gen.Deref(vals[a.Name])
		if isNil {
			continue
		}

		if a.Nullable {
			special = true
		}

		switch v := b.(type) {
		case string:
			if v != "" {
				nonzero = true
			}

			if strings.ContainsAny(v, "\x00\"\\<>&\u2028\u2029\n") || len(v) != utf8.RuneCountInString(v) {
				special = true
				labels = append(labels, "class:escaped-string")
			}
		case time.Time:
			if !v.IsZero() {
				nonzero = true
			}

			_, off := v.Zone()
			if off != 0 || v.Nanosecond() != 0 {
				special = true
				labels = append(labels, "class:zoned-or-subsecond-time")
			}
		case []byte:
			if len(v) > 0 {
				nonzero = true
			} else {
				labels = append(labels, "class:empty-bytes")
			}
		case bool:
			if v {
				nonzero = true
			}
		case uint64:
			if v != 0 {
				nonzero = true
			}

			if v > math.MaxInt64 {
				special = true
				labels = append(labels, "class:uint64>2^63")
			}
		case uint:
			if v != 0 {
				nonzero = true
			}

			if v > math.MaxInt64 {
				special = true
				labels = append(labels, "class:uint64>2^63")
			}
		default:
			if fmt.Sprint(v) != "0" {
				nonzero = true
			}

			lo, hi, signed, ok := gen.IntRangeOf(a.Type)
			if ok {
				s := fmt.Sprint(v)
				if (signed && (s == fmt.Sprint(lo) || s == fmt.Sprint(int64(hi)))) || (!signed && s == fmt.Sprint(hi)) {
					special = true
					labels = append(labels, "class:width-boundary")
				}
			}
		}
	}

	for _, r := range ts.Rels {
		if ids, ok := vals[r.FromName].([]string); ok && len(ids) >= 2 {
			special = true
			labels = append(labels, "class:to-many>=2")
		}
	}

	return labels, nonzero, special
}

// scribbleValue overwrites, in place, what a value holds behind a pointer or
// in a slice (what a caller is free to do with a value the library gave it).
func scribbleValue(val any) {
	v := reflect.ValueOf(val)

	switch {
	case v.Kind() == reflect.Ptr && !v.IsNil():
		if e := v.Elem(); e.Kind() == reflect.Slice {
			for i := 0; i < e.Len(); i++ {
				e.Index(i).Set(reflect.Zero(e.Type().Elem()))
			}
		} else if e.CanSet() {
			switch e.Kind() {
			case reflect.Bool:
				e.SetBool(!e.Bool())
			case reflect.String:
				e.SetString("scribbled")
			default:
				e.Set(reflect.Zero(e.Type()))
			}
		}
	case v.Kind() == reflect.Slice:
		for i := 0; i < v.Len(); i++ {
			v.Index(i).Set(reflect.Zero(v.Type().Elem()))
		}
	}
}

// scribble overwrites, in place, every value of the resource that is held
// behind a pointer or in a slice.
func scribble(ts *gen.TypeSpec, res jsonapi.Resource) {
	oracle.Try(func() {
		for _, a := range ts.Attrs {
			scribbleValue(res.Get(a.Name))
		}

		for _, r := range ts.Rels {
			if ids, ok := res.Get(r.FromName).([]string); ok {
				for i := range ids {
					ids[i] = "scribbled"
				}
			}
		}
	})
}

func TestC01RoundTrip(t *testing.T) {
	r := rec.For("C01RoundTrip")

	rapid.Check(t, prop(r, func(t *rapid.T) {
		opts := gen.DefaultSchemaOpts
		opts.AllowTypeField = true
		opts.OddFromType = true
		opts.JSONTagOptions = rapid.IntRange(0, 3).Draw(t, "tagoptions") == 0
		ss := gen.CoherentSchema(t, opts)
		ts := &ss.Types[rapid.IntRange(0, len(ss.Types)-1).Draw(t, "type")]

		var (
			res  jsonapi.Resource
			vals map[string]any
		)

		switch {
		case !ts.Struct && len(ts.Fields()) > 0 && rapid.IntRange(0, 4).Draw(t, "lateField") == 0:
			// a soft resource one of whose fields was added to its type after
			// the values were set (it reads as zero)
			res, vals = gen.SoftWithLateField(t, ts, "v")
		case rapid.Bool().Draw(t, "viaNew"):
			typ := ss.Schema.GetType(ts.Name)
			res = typ.New()
		default:
			res = gen.NewResource(ts)
		}

		if vals == nil {
			vals = gen.FillResource(t, res, ts, "v")
		}

		// IDs are any strings, the empty one included.
		for _, rel := range ts.Rels {
			if ids, ok := vals[rel.FromName].([]string); ok && rapid.IntRange(0, 7).Draw(t, "emptyid") == 0 {
				ids = append(append([]string{}, ids...), "")
				vals[rel.FromName] = ids
				res.Set(rel.FromName, append([]string{}, ids...))
			}
		}

		// A to-many relationship may list an ID twice; C01 compares sets.
		for _, rel := range ts.Rels {
			if ids, ok := vals[rel.FromName].([]string); ok && len(ids) > 0 && rapid.IntRange(0, 5).Draw(t, "dup") == 0 {
				ids = append(append([]string{}, ids...), ids[0])
				vals[rel.FromName] = ids
				res.Set(rel.FromName, append([]string{}, ids...))
			}
		}

		mode := rapid.SampledFrom([]string{"resource", "document", "member", "collection"}).Draw(t, "mode")
		prepath := rapid.SampledFrom([]string{"", "/", "https://h", "https://h/api/"}).Draw(t, "prepath")

		var (
			payload []byte
			got     jsonapi.Resource
			err     error
		)

		id := vals["id"].(string)
		firstMember := ""

		p := oracle.Try(func() {
			switch mode {
			case "resource":
				payload = jsonapi.MarshalResource(res, prepath, ts.Fields(), allRelData(ss))
				got, err = jsonapi.UnmarshalResource(payload, ss.Schema)
			case "document":
				doc := &jsonapi.Document{Data: res, RelData: allRelData(ss), PrePath: prepath}
				payload, err = jsonapi.MarshalDocument(doc, allFieldsURL(ss, ts.Name, id))

				if err == nil {
					var d2 *jsonapi.Document

					d2, err = jsonapi.UnmarshalDocument(payload, ss.Schema)
					if err == nil {
						got, _ = d2.Data.(jsonapi.Resource)
					}
				}
			case "collection":
				// MarshalCollection / UnmarshalCollection directly. The payload
				// is kept while another collection is marshaled (a payload
				// belongs to the caller once it was returned).
				fields := map[string][]string{}
				for i := range ss.Types {
					fields[ss.Types[i].Name] = ss.Types[i].Fields()
				}

				col := &jsonapi.Resources{}
				col.Add(res)

				payload = jsonapi.MarshalCollection(col, prepath, fields, allRelData(ss))
				kept := append([]byte{}, payload...)

				decoy := &jsonapi.Resources{}
				for i := 0; i < 2; i++ {
					d := gen.NewResource(ts)
					d.Set("id", fmt.Sprintf("decoy-%d", i))
					decoy.Add(d)
				}

				_ = jsonapi.MarshalCollection(decoy, prepath, fields, allRelData(ss))

				if string(kept) != string(payload) {
					err = fmt.Errorf("the payload returned by MarshalCollection changed when another collection was marshaled:\nbefore: %s\nafter:  %s", kept, payload)
					return
				}

				var c jsonapi.Collection

				c, err = jsonapi.UnmarshalCollection(payload, ss.Schema)
				if err == nil && c != nil && c.Len() == 1 {
					got = c.At(0)
				}
			case "member":
				// The other member comes first and is of another type when the
				// schema has one (Resources collections may mix types).
				ots := &ss.Types[rapid.IntRange(0, len(ss.Types)-1).Draw(t, "othertype")]
				other := gen.NewResource(ots)
				otherID := id + "-other"
				fillers := 0

				if rapid.IntRange(0, 9).Draw(t, "fillers") == 0 {
					fillers = rapid.SampledFrom([]int{29, 30, 31, 47, 48, 61, 62, 63, 64, 65, 127, 129}).Draw(t, "nfillers")
				}

				// Two members may carry the same ID (two resources that have
				// none yet, a list that shows a row twice).
				if rapid.IntRange(0, 2).Draw(t, "sameid") == 0 {
					otherID = id
				}

				other.Set("id", otherID)

				// Where the other type has an attribute of the same name and
				// of another kind, the member in front carries the value that
				// is written with the same JSON literal, when there is one.
				if ots.Name != ts.Name {
					for _, oa := range ots.Attrs {
						for _, a := range ts.Attrs {
							if a.Name != oa.Name || (a.Type == oa.Type && a.Nullable == oa.Nullable) {
								continue
							}

							lit, merr := json.Marshal(vals[a.Name])
							if merr != nil {
								continue
							}

							// (the library's own decoder serves as a generator
							// here; what it does with a literal that is not of
							// the kind, a recorded panic included, is C06's
							// subject)
							func() {
								defer func() { _ = recover() }()

								if v2, uerr := oa.UnmarshalToType(lit); uerr == nil {
									other.Set(oa.Name, v2)
									r.Label("member:same-literal-other-kind")
								}
							}()
						}
					}
				}

				col := &jsonapi.Resources{}

				// (now and then a long list in front of the two: sizes at
				// which the members may be split among workers)
				for i := 0; i < fillers; i++ {
					f := gen.NewResource(ots)
					f.Set("id", fmt.Sprintf("filler-%d", i))
					col.Add(f)
				}

				col.Add(other)
				col.Add(res)

				doc := &jsonapi.Document{Data: col, RelData: allRelData(ss), PrePath: prepath}
				payload, err = jsonapi.MarshalDocument(doc, allFieldsURL(ss, ts.Name))

				if err == nil {
					var d2 *jsonapi.Document

					d2, err = jsonapi.UnmarshalDocument(payload, ss.Schema)
					if err == nil {
						if c, ok := d2.Data.(jsonapi.Collection); ok && c.Len() == fillers+2 {
							got = c.At(fillers + 1)

							// the member in front is still what it was
							if f := c.At(fillers); f == nil {
								firstMember = "the member in front of it came back as nil"
							} else if f.GetType().Name != ots.Name || f.Get("id") != otherID {
								firstMember = fmt.Sprintf("the member in front of it (type %q, id %q) came back with type %q and id %q", ots.Name, otherID, f.GetType().Name, f.Get("id"))
							}
						}
					}
				}
			}
		})

		desc := fmt.Sprintf("%s mode=%s prepath=%q vals=%s", ts, mode, prepath, gen.ShowVals(vals))

		if p != nil {
			t.Fatalf("C01 violated: %s\ncase: %s\npayload: %s", p, desc, payload)
		}

		if err != nil {
			t.Fatalf("C01 violated: round trip failed with error %v\ncase: %s\npayload: %s", err, desc, payload)
		}

		if got == nil {
			t.Fatalf("C01 violated: round trip returned no resource\ncase: %s\npayload: %s", desc, payload)
		}

		if !json.Valid(payload) {
			t.Fatalf("C01 violated: payload is not valid JSON\ncase: %s\npayload: %s", desc, payload)
		}

		if msg := compareWithVals(ts, vals, got); msg != "" {
			t.Fatalf("C01 violated: %s\ncase: %s\npayload: %s", msg, desc, payload)
		}

		if firstMember != "" {
			t.Fatalf("C01 violated: %s\ncase: %s\npayload: %s", firstMember, desc, payload)
		}

		// What came back belongs to the caller, who may write through the
		// pointers and slices it holds; the next round trip (this process
		// runs thousands) must not notice.
		scribble(ts, got)

		labels, nonzero, special := valueClasses(ts, vals)
		labels = append(labels, "mode:"+mode)
		r.Case(desc, nonzero && special, labels...)
	}))
}

// TestC01Regress: every kind at its extremes, both implementations, as a plain example.
func TestC01Regress(t *testing.T) {
	attrs := gen.AllKindAttrs()
	maxT := time.Date(9999, 12, 31, 23, 59, 59, 999999999, time.FixedZone("", -(23*60+59)*60))
	ext := map[int]any{
		jsonapi.AttrTypeString: "\x00\"\\<>&\u2028é😀", jsonapi.AttrTypeInt: math.MinInt64, jsonapi.AttrTypeInt8: int8(math.MinInt8),
		jsonapi.AttrTypeInt16: int16(math.MaxInt16), jsonapi.AttrTypeInt32: int32(math.MinInt32), jsonapi.AttrTypeInt64: int64(math.MaxInt64),
		jsonapi.AttrTypeUint: uint(math.MaxUint64), jsonapi.AttrTypeUint8: uint8(math.MaxUint8), jsonapi.AttrTypeUint16: uint16(math.MaxUint16),
		jsonapi.AttrTypeUint32: uint32(math.MaxUint32), jsonapi.AttrTypeUint64: uint64(1<<63 + 1), jsonapi.AttrTypeBool: true,
		jsonapi.AttrTypeTime: maxT, jsonapi.AttrTypeBytes: []byte{0, 0xff, '"'},
	}

	for _, isStruct := range []bool{false, true} {
		specs := []gen.TypeSpec{{
			Name: "t", Attrs: attrs, Struct: isStruct,
			Rels: []jsonapi.Rel{
				{FromType: "t", FromName: "many", ToType: "t"},
				{FromType: "t", FromName: "one", ToType: "t", ToOne: true},
			},
		}}
		ss := gen.BuildSchema(specs)
		ts := &ss.Types[0]
		res := gen.NewResource(ts)
		vals := map[string]any{"id": "a b/?\x00", "many": []string{"z", "a", "m"}, "one": "x"}

		for _, a := range attrs {
			v := ext[a.Type]
			if a.Nullable {
				v = gen.PtrTo(v)
			}

			vals[a.Name] = v
		}

		for k, v := range vals {
			res.Set(k, gen.Clone(v))
		}

		payload := jsonapi.MarshalResource(res, "https://h", ts.Fields(), allRelData(ss))

		got, err := jsonapi.UnmarshalResource(payload, ss.Schema)
		if err != nil {
			t.Fatalf("C01 violated: %v (struct=%v)\n%s", err, isStruct, payload)
		}

		if msg := compareWithVals(ts, vals, got); msg != "" {
			t.Fatalf("C01 violated: %s (struct=%v)\n%s", msg, isStruct, payload)
		}
	}
}

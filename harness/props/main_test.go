// Package props holds one file per property: TestCxx... functions are rapid
// searches (one rapid.Check each, so that a fail file belongs to exactly one
// property function), TestCxxRegress are plain examples that bypass rapid, and
// Fuzz... are native fuzz targets used by the thorough tier.
package props

import (
	"os"
	"testing"

	"pgregory.net/rapid"

	"verif/harness/kf"
	"verif/harness/rec"
)

func TestMain(m *testing.M) {
	code := m.Run()

	rec.Flush()
	os.Exit(code)
}

// excludedKnown is the sentinel that abandons a case which hit a listed known
// finding (DESIGN §5.3).
type excludedKnown struct{ sig string }

// exclude abandons the current case if sig is listed as a known finding and
// reports whether it is not (so that the caller then fails the case).
func exclude(sig string) {
	if kf.Known(sig) {
		panic(excludedKnown{sig})
	}
}

// prop wraps a property body: it counts cases excluded by a known finding and
// re-raises everything else (rapid's own control-flow panics included).
func prop(r *rec.Recorder, body func(t *rapid.T)) func(t *rapid.T) {
	return func(t *rapid.T) {
		defer func() {
			if x := recover(); x != nil {
				if e, ok := x.(excludedKnown); ok {
					r.Excluded(e.sig)
					return
				}

				panic(x)
			}
		}()

		body(t)
	}
}

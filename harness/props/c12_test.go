package props

import (
	"bytes"
	"encoding/json"
	"fmt"
	"net/http/httptest"
	"net/url"
	"os"
	"sort"
	"strings"
	"sync"
	"testing"
	"time"

	"github.com/mfcochauxlaberge/jsonapi"
	"pgregory.net/rapid"

	"verif/harness/gen"
	"verif/harness/oracle"
	"verif/harness/rec"
)

// C12 — a built schema can be shared by concurrent requests.

// c12Op is one read-only operation with its own, pre-generated inputs.
type c12Op struct {
	kind    string
	raw     string         // parse-url
	payload []byte         // unmarshal-document, unmarshal-partial
	typ     string         // new-set-get, marshal, get-type, has-type
	vals    map[string]any // new-set-get, marshal
	ts      *gen.TypeSpec
	resMeta string // unmarshal-*: the payload's resource-level meta ("" if none)
	reps    int    // parse-url: how many times in a row the text is parsed (0 = once)
	members int    // marshal-softcol: how many members the collection has (0 = two)
}

func (o c12Op) String() string {
	switch o.kind {
	case "parse-url":
		return fmt.Sprintf("parse-url(%q)", o.raw)
	case "unmarshal-document", "unmarshal-partial", "roundtrip-document", "new-request", "unmarshal-collection":
		return fmt.Sprintf("%s(%s)", o.kind, o.payload)
	case "new-set-get", "marshal", "marshal-softcol":
		if o.members > 0 {
			return fmt.Sprintf("%s(%s %s x%d)", o.kind, o.typ, gen.ShowVals(o.vals), o.members)
		}

		return fmt.Sprintf("%s(%s %s)", o.kind, o.typ, gen.ShowVals(o.vals))
	}

	return fmt.Sprintf("%s(%q)", o.kind, o.typ)
}

var c12Kinds = []string{"unmarshal-collection", "new-request", "parse-url", "unmarshal-document", "unmarshal-partial", "new-set-get", "new-direct", "marshal", "marshal-softcol", "roundtrip-document", "has-type", "get-type", "check", "rels"}

func drawOp(t *rapid.T, ss *gen.SchemaSpec) c12Op {
	kind := rapid.SampledFrom(c12Kinds).Draw(t, "op")
	ts := &ss.Types[rapid.IntRange(0, len(ss.Types)-1).Draw(t, "type")]
	// A hand-written type that stores a relationship under a key that is not its
	// name cannot be marshaled (Get does not find the field); such types are
	// only created, set, read and looked up.
	if (kind == "marshal" || kind == "marshal-softcol") && ts.RelKeys != nil {
		kind = "new-set-get"
	}

	if kind == "roundtrip-document" && ts.RelKeys != nil {
		kind = "unmarshal-document"
	}

	op := c12Op{kind: kind, typ: ts.Name, ts: ts}

	// (identifiers of a linkage may bear the name of another type of the
	// schema than the relationship's target: the IDs are what is read)
	known := make([]string, len(ss.Types))
	for i := range ss.Types {
		known[i] = ss.Types[i].Name
	}

	switch kind {
	case "parse-url":
		op.raw = gen.URLRequest(t, ss, gen.URLOpts{Valid: rapid.Bool().Draw(t, "validurl")}).Render(t, "render")

		// (a client retrying: the same text many times in a row)
		if rapid.IntRange(0, 5).Draw(t, "burst") == 0 {
			op.reps = 60
		}
	case "unmarshal-document", "roundtrip-document", "new-request":
		pc := gen.ResourcePayload(t, ts, gen.PayloadOpts{Canonical: true, AllFieldsOften: true, ForeignTypes: known, ForeignPerTen: 2})
		op.payload = []byte(`{"data":` + pc.Text + `,"meta":{"k":1}}`)
		op.resMeta = pc.ResMeta
	case "unmarshal-partial":
		pc := gen.ResourcePayload(t, ts, gen.PayloadOpts{Canonical: true, ForeignTypes: known, ForeignPerTen: 2})
		op.payload = []byte(pc.Text)
		op.resMeta = pc.ResMeta
	case "unmarshal-collection":
		// A document whose data is a list of resources of the type; one
		// list in four has a member that is refused (an unknown field).
		members := []string{}
		for i, n := 0, rapid.IntRange(0, 4).Draw(t, "nmembers"); i < n; i++ {
			members = append(members, gen.ResourcePayload(t, ts, gen.PayloadOpts{Canonical: true, AllFieldsOften: true, ForeignTypes: known, ForeignPerTen: 2}).Text)
		}

		if rapid.IntRange(0, 3).Draw(t, "badmember") == 0 {
			at := rapid.IntRange(0, len(members)).Draw(t, "badmember-at")
			bad := `{"type":` + gen.QuoteJSON(ts.Name) + `,"id":"bad","attributes":{"zz-no-such-field":1}}`
			members = append(members[:at:at], append([]string{bad}, members[at:]...)...)
		}

		op.payload = []byte(`{"data":[` + strings.Join(members, ",") + `]}`)

		if rapid.IntRange(0, 3).Draw(t, "burst") == 0 {
			op.reps = 20
		}

		// ... or the list is what the document includes (now and then a long
		// one), next to no primary data.
		if rapid.IntRange(0, 2).Draw(t, "asincluded") == 0 {
			if rapid.IntRange(0, 2).Draw(t, "manyincluded") == 0 && len(members) > 0 {
				for len(members) < 33 {
					members = append(members, fmt.Sprintf(`{"type":%s,"id":"filler-%d"}`, gen.QuoteJSON(ts.Name), len(members)))
				}
			}

			op.payload = []byte(`{"data":[],"included":[` + strings.Join(members, ",") + `]}`)
		}
	case "new-set-get", "marshal", "marshal-softcol":
		op.vals = gen.FillResource(t, gen.NewResource(ts), ts, "v")

		// (now and then an ID long enough for a link of well over a hundred
		// bytes)
		if rapid.IntRange(0, 5).Draw(t, "longid") == 0 {
			op.vals["id"] = strings.Repeat("long-id-", rapid.IntRange(16, 40).Draw(t, "longid-n")) + op.vals["id"].(string)
		}

		// (now and then a collection of a page's worth of members)
		if kind == "marshal-softcol" && rapid.IntRange(0, 5).Draw(t, "manymembers") == 3 {
			op.members = rapid.SampledFrom([]int{17, 33, 64, 65, 100, 129}).Draw(t, "manymembers-n")
		}
	case "has-type", "get-type":
		if rapid.IntRange(0, 3).Draw(t, "unknown") == 0 {
			op.typ = "nope"
		}
	}

	return op
}

// runOp executes the operation against the shared schema and returns a digest
// of its result that does not depend on anything but the inputs.
func runOp(schema *jsonapi.Schema, ss *gen.SchemaSpec, op c12Op, held *[]c12Held) string {
	hold := func(res jsonapi.Resource, digest string) string {
		if held != nil {
			*held = append(*held, c12Held{res, digest, op.String()})
		}

		return digest
	}

	switch op.kind {
	case "parse-url":
		digest := ""

		for i := 0; i <= op.reps; i++ {
			u, err := jsonapi.NewURLFromRaw(schema, op.raw)

			d := "error"
			if err == nil {
				d = "url " + u.String()
			}

			if i > 0 && d != digest {
				return fmt.Sprintf("parse %d of the same text gives %s, parse 0 gave %s", i, d, digest)
			}

			digest = d
		}

		return digest
	case "new-request":
		// The whole request at once: a POST to the type's collection with
		// the document as its body.
		req, err := jsonapi.NewRequest(httptest.NewRequest("POST", "/"+url.PathEscape(op.typ), bytes.NewReader(op.payload)), schema)
		if err != nil {
			return "error"
		}

		res, _ := req.Doc.Data.(jsonapi.Resource)
		if res == nil {
			return "no data"
		}

		return req.URL.String() + " " + hold(res, "doc "+c12Digest(res))
	case "unmarshal-collection":
		// (a burst first, when the operation has one: the same body many
		// times in a row)
		for i := 0; i < op.reps; i++ {
			_, _ = jsonapi.UnmarshalDocument(op.payload, schema)
		}

		doc, err := jsonapi.UnmarshalDocument(op.payload, schema)
		if err != nil {
			return "error"
		}

		col, _ := doc.Data.(jsonapi.Collection)
		if col == nil {
			return "no collection"
		}

		digest := fmt.Sprintf("collection of %d:", col.Len())
		for i := 0; i < col.Len(); i++ {
			digest += " " + hold(col.At(i), "doc "+c12Digest(col.At(i)))
		}

		digest += fmt.Sprintf(" included %d:", len(doc.Included))
		for _, inc := range doc.Included {
			digest += " " + hold(inc, "doc "+c12Digest(inc))
		}

		return digest
	case "unmarshal-document":
		doc, err := jsonapi.UnmarshalDocument(op.payload, schema)
		if err != nil {
			return "error"
		}

		res, _ := doc.Data.(jsonapi.Resource)
		if res == nil {
			return "no data"
		}

		return hold(res, "doc "+c12Digest(res))
	case "unmarshal-partial":
		res, err := jsonapi.UnmarshalPartialResource(op.payload, schema)
		if err != nil {
			return "error"
		}

		return hold(res, "partial "+c12Digest(res))
	case "new-direct":
		// New on the schema's own element (not on a copy from GetType).
		// Only New itself is called: a soft resource created this way is a
		// view on the schema's type by design.
		for i := range schema.Types {
			if schema.Types[i].Name == op.typ {
				return fmt.Sprintf("new-direct %v", schema.Types[i].New() != nil)
			}
		}

		return "new-direct: no such type"
	case "new-set-get":
		typ := schema.GetType(op.typ)
		res := typ.New()

		for _, k := range gen.SortedKeys(op.vals) {
			res.Set(k, gen.Clone(op.vals[k]))
		}

		return "resource " + oracle.SnapshotResource(res, true)
	case "marshal":
		typ := schema.GetType(op.typ)
		res := typ.New()

		for _, k := range gen.SortedKeys(op.vals) {
			res.Set(k, gen.Clone(op.vals[k]))
		}

		doc := &jsonapi.Document{Data: res, RelData: allRelData(ss)}

		out, err := jsonapi.MarshalDocument(doc, allFieldsURL(ss, op.typ, op.vals["id"].(string)))
		if err != nil {
			return "error"
		}

		return "marshaled " + string(out)
	case "marshal-softcol":
		// A request's own collection of the type, typed from the schema
		// (GetType), filled with resources of exactly that type.
		typ := schema.GetType(op.typ)
		col := &jsonapi.SoftCollection{}
		col.SetType(&typ)

		for i := 0; i < max(2, op.members); i++ {
			res := typ.New()

			for _, k := range gen.SortedKeys(op.vals) {
				res.Set(k, gen.Clone(op.vals[k]))
			}

			res.Set("id", fmt.Sprintf("%s-%d", op.vals["id"], i))
			col.Add(res)
		}

		doc := &jsonapi.Document{Data: col, RelData: allRelData(ss)}

		out, err := jsonapi.MarshalDocument(doc, allFieldsURL(ss, op.typ))
		if err != nil {
			return "error"
		}

		return "marshaled " + string(out)
	case "roundtrip-document":
		// The document a request read is written back (an echo).
		doc, err := jsonapi.UnmarshalDocument(op.payload, schema)
		if err != nil {
			return "error"
		}

		res, _ := doc.Data.(jsonapi.Resource)
		if res == nil {
			return "no data"
		}

		doc.RelData = allRelData(ss)

		out, err := jsonapi.MarshalDocument(doc, allFieldsURL(ss, res.GetType().Name, res.Get("id").(string)))
		if err != nil {
			return "error"
		}

		return "echoed " + string(out)
	case "has-type":
		return fmt.Sprintf("has %v", schema.HasType(op.typ))
	case "get-type":
		return "type " + oracle.SnapshotType(schema.GetType(op.typ))
	case "check":
		return fmt.Sprintf("check %d", len(schema.Check()))
	case "rels":
		rels := schema.Rels()
		parts := make([]string, len(rels))

		for i := range rels {
			// names only: when the two sides of a pair disagree about
			// cardinality either side's normal form may be listed (see C16)
			parts[i] = fmt.Sprintf("%q.%q<->%q.%q", rels[i].FromType, rels[i].FromName, rels[i].ToType, rels[i].ToName)
		}

		return "rels " + strings.Join(parts, ",")
	}

	return "?"
}

// c12Held is a result that a goroutine keeps until the end of its list.
type c12Held struct {
	res    jsonapi.Resource
	digest string
	op     string
}

// c12Digest renders an unmarshaled resource: type, ID, fields and the
// resource-level meta.
func c12Digest(res jsonapi.Resource) string {
	d := oracle.SnapshotResource(res, true)

	if m, ok := res.(interface{ Meta() jsonapi.Meta }); ok {
		if mm := m.Meta(); len(mm) > 0 {
			return d + " meta=" + gen.ShowJSONish(map[string]any(mm))
		}
	}

	return d + " meta="
}

// c12StillHeld re-reads the results kept by one goroutine (or by the
// sequential run): a result belongs to the request that produced it, whatever
// other requests did since.
func c12StillHeld(held []c12Held) string {
	for _, h := range held {
		now := ""

		switch {
		case strings.HasPrefix(h.digest, "doc "):
			now = "doc " + c12Digest(h.res)
		case strings.HasPrefix(h.digest, "partial "):
			now = "partial " + c12Digest(h.res)
		}

		if now != h.digest {
			return fmt.Sprintf("the result of %s changed after it was returned\nthen: %s\nnow:  %s", h.op, h.digest, now)
		}
	}

	return ""
}

// c12MetaOK checks the resource-level meta of an unmarshal result against the
// request's own payload.
func c12MetaOK(op c12Op, digest string) string {
	if op.kind != "unmarshal-document" && op.kind != "unmarshal-partial" || digest == "error" || digest == "no data" {
		return ""
	}

	want := ""

	if op.resMeta != "" {
		var m map[string]any

		_ = json.Unmarshal([]byte(op.resMeta), &m)
		want = gen.ShowJSONish(m)
	}

	// Whether an entry point carries the resource-level meta over is not
	// C12's subject (partial unmarshaling does not); a meta that is not the
	// request's own is: it came from another request.
	if !strings.HasSuffix(digest, " meta="+want) && !strings.HasSuffix(digest, " meta=") {
		return fmt.Sprintf("%s: the result's resource meta is not from the request's own payload (%q): %s", op, op.resMeta, digest)
	}

	return ""
}

func c12Schema(t *rapid.T) *gen.SchemaSpec {
	o := gen.SchemaOpts{MinTypes: 2, MaxTypes: 3, MaxAttrs: 4, MaxRelEdges: 5, AllKindsChance: 0, OddRelKeys: true, OddCardinality: true, OneEmptyFromType: true}

	// "Every schema": one in three is large (a lookup structure may only be
	// built beyond some size).
	if rapid.IntRange(0, 2).Draw(t, "large") == 0 {
		o.MinTypes, o.MaxTypes, o.MaxAttrs = 8, 22, 2
	}

	ss := gen.CoherentSchema(t, o)

	// "Every schema": some have relationships that point nowhere (Check then
	// has something to report). They are added to the schema only - the
	// generators of URLs, payloads and resources do not use them.
	c12Dangling = c12Dangling[:0]

	for i := range ss.Types {
		if !ss.Types[i].Struct && rapid.IntRange(0, 2).Draw(t, "dangling") == 0 {
			c12Dangling = append(c12Dangling, ss.Types[i].Name)
		}
	}

	c12AddDangling(ss.Schema)

	return ss
}

// c12Dangling lists the soft types of the current case that get a dangling
// relationship; c12AddDangling adds them to a schema built from the same specs.
var c12Dangling []string

func c12AddDangling(schema *jsonapi.Schema) {
	for _, name := range c12Dangling {
		if err := schema.AddRel(name, jsonapi.Rel{FromType: name, FromName: "zz-dangling", ToType: "zz-ghost", ToOne: true}); err != nil {
			panic("c12AddDangling: " + err.Error())
		}
	}
}

// TestC12Sequential: every operation, alone, leaves the schema's exported
// state deep-equal to a snapshot taken before (shrinkable).
func TestC12Sequential(t *testing.T) {
	r := rec.For("C12Sequential")

	rapid.Check(t, prop(r, func(t *rapid.T) {
		ss := c12Schema(t)
		n := rapid.IntRange(1, 12).Draw(t, "nops")
		kinds := map[string]bool{}
		descs := []string{}
		held := []c12Held{}

		for i := 0; i < n; i++ {
			op := drawOp(t, ss)
			before := oracle.SnapshotSchema(ss.Schema)

			var d1, d2 string

			if p := oracle.Try(func() {
				d1 = runOp(ss.Schema, ss, op, &held)
				d2 = runOp(ss.Schema, ss, op, &held)
			}); p != nil {
				t.Fatalf("C12 violated: %s %s\nschema: %s", op, p, ss)
			}

			if after := oracle.SnapshotSchema(ss.Schema); after != before {
				t.Fatalf("C12 violated: %s changed the schema\nbefore: %s\nafter:  %s", op, before, after)
			}

			if d1 != d2 {
				t.Fatalf("C12 violated: %s gives two different results on the same schema\n1: %s\n2: %s", op, d1, d2)
			}

			if msg := c12MetaOK(op, d1); msg != "" {
				t.Fatalf("C12 violated: %s\nschema: %s", msg, ss)
			}

			if msg := c12StillHeld(held); msg != "" {
				t.Fatalf("C12 violated: %s\nschema: %s", msg, ss)
			}

			kinds[op.kind] = true
			descs = append(descs, op.String())
		}

		labels := []string{}
		for _, k := range gen.SortedKeys(kinds) {
			labels = append(labels, "op:"+k)
		}

		r.Case(ss.String()+" ops: "+strings.Join(descs, "; "), len(kinds) >= 3, labels...)
	}))
}

// TestC12Concurrent: the same kind of operation lists run on real goroutines
// released by a barrier, in a -race build (the driver builds this property
// with the race detector and halt_on_error). A race report kills the process;
// the case is written to c12.case.txt beforehand so that the report can be
// paired with its history. Results must equal those of a sequential run.
func TestC12Concurrent(t *testing.T) {
	r := rec.For("C12Concurrent")

	rapid.Check(t, prop(r, func(t *rapid.T) {
		ss := c12Schema(t)
		g := rapid.IntRange(2, 16).Draw(t, "goroutines")
		lists := make([][]c12Op, g)
		kinds := map[string]bool{}
		schemaQuery := false

		var desc strings.Builder

		fmt.Fprintf(&desc, "%s\n", ss)

		for i := range lists {
			n := rapid.IntRange(5, 25).Draw(t, "nops")
			for j := 0; j < n; j++ {
				op := drawOp(t, ss)

				// The same request may arrive twice: now and then a goroutine
				// repeats the text another one was given (its own copy of it).
				if i > 0 && rapid.IntRange(0, 3).Draw(t, "repeat-request") == 0 {
					other := lists[rapid.IntRange(0, i-1).Draw(t, "repeat-of-goroutine")]
					if o := other[rapid.IntRange(0, len(other)-1).Draw(t, "repeat-of-op")]; o.vals == nil {
						op = o
						op.payload = append([]byte(nil), o.payload...)
					}
				}

				lists[i] = append(lists[i], op)
				kinds[op.kind] = true

				if op.kind == "has-type" || op.kind == "get-type" || op.kind == "check" || op.kind == "rels" {
					schemaQuery = true
				}
			}

			fmt.Fprintf(&desc, "goroutine %d:", i)

			for _, op := range lists[i] {
				fmt.Fprintf(&desc, " %s;", op)
			}

			desc.WriteString("\n")
		}

		_ = os.WriteFile("c12.case.txt", []byte(desc.String()), 0o644)

		before := oracle.SnapshotSchema(ss.Schema)

		// The concurrent run comes first, on the freshly built schema, so that
		// anything built lazily on first use is built under contention. The
		// sequential reference run uses a twin schema built from the same
		// description.
		twin := gen.BuildSchema(append([]gen.TypeSpec{}, ss.Types...))
		c12AddDangling(twin.Schema)

		// Concurrent run.
		got := make([][]string, g)
		panics := make([]string, g)
		stale := make([]string, g)

		var (
			wg    sync.WaitGroup
			start = make(chan struct{})
		)

		for i := range lists {
			wg.Add(1)

			go func(i int) {
				defer wg.Done()
				defer func() {
					if x := recover(); x != nil {
						panics[i] = fmt.Sprint(x)
					}
				}()

				<-start

				held := []c12Held{}

				for _, op := range lists[i] {
					got[i] = append(got[i], runOp(ss.Schema, ss, op, &held))
				}

				// Read everything this goroutine was given once more, while
				// the others may still be at work.
				stale[i] = c12StillHeld(held)
			}(i)
		}

		close(start)

		// The listed operations only read: they cannot wait for each other.
		// Each list takes milliseconds; if the goroutines are not all done
		// after a minute they block each other.
		done := make(chan struct{})

		go func() {
			wg.Wait()
			close(done)
		}()

		select {
		case <-done:
		case <-time.After(60 * time.Second):
			t.Fatalf("C12 violated: %d goroutines running read-only operations against one schema did not all return within 60 s (their lists take milliseconds): the operations block each other\ncase: %s", g, desc.String())
		}

		// Sequential reference run.
		want := make([][]string, g)

		for i := range lists {
			for _, op := range lists[i] {
				var d string
				if p := oracle.Try(func() { d = runOp(twin.Schema, twin, op, nil) }); p != nil {
					t.Fatalf("C12 violated: %s %s", op, p)
				}

				want[i] = append(want[i], d)
			}
		}

		for i := range lists {
			if panics[i] != "" {
				t.Fatalf("C12 violated: goroutine %d panicked: %s\ncase: %s", i, panics[i], desc.String())
			}

			if stale[i] != "" {
				t.Fatalf("C12 violated: goroutine %d: %s\ncase: %s", i, stale[i], desc.String())
			}

			for j := range lists[i] {
				if msg := c12MetaOK(lists[i][j], got[i][j]); msg != "" {
					t.Fatalf("C12 violated: goroutine %d: %s\ncase: %s", i, msg, desc.String())
				}

				if got[i][j] != want[i][j] {
					t.Fatalf("C12 violated: goroutine %d, %s: concurrent result differs from the sequential one\nconcurrent: %s\nsequential: %s\ncase: %s",
						i, lists[i][j], got[i][j], want[i][j], desc.String())
				}
			}
		}

		if after := oracle.SnapshotSchema(ss.Schema); after != before {
			t.Fatalf("C12 violated: the schema changed\nbefore: %s\nafter:  %s", before, after)
		}

		ks := gen.SortedKeys(kinds)
		sort.Strings(ks)

		labels := []string{fmt.Sprintf("goroutines:%d", g/4*4)}
		for _, k := range ks {
			labels = append(labels, "op:"+k)
		}

		r.Case(desc.String(), g >= 2 && len(kinds) >= 3 && schemaQuery, labels...)
	}))
}

func TestC12Regress(t *testing.T) {
	ss := fixedSchema()

	t.Run("concurrent-Rels", func(t *testing.T) {
		var wg sync.WaitGroup

		for i := 0; i < 8; i++ {
			wg.Add(1)

			go func() {
				defer wg.Done()

				for j := 0; j < 200; j++ {
					_ = ss.Schema.Rels()
					_ = ss.Schema.Check()
					_ = ss.Schema.HasType("a")
					typ := ss.Schema.GetType("b")
					_ = typ.New()
				}
			}()
		}

		done := make(chan struct{})

		go func() {
			wg.Wait()
			close(done)
		}()

		select {
		case <-done:
		case <-time.After(60 * time.Second):
			t.Fatalf("C12 violated: 8 goroutines calling Rels, Check, HasType, GetType and New on one schema did not return within 60 s: the queries block each other")
		}
	})
}

package props

import (
	"bytes"
	"encoding/base64"
	"encoding/json"
	"fmt"
	"math/big"
	"reflect"
	"sort"
	"strings"
	"testing"
	"time"

	"github.com/mfcochauxlaberge/jsonapi"
	"pgregory.net/rapid"

	"verif/harness/gen"
	"verif/harness/kf"
	"verif/harness/oracle"
	"verif/harness/rec"
)

// C06 — unmarshaling is faithful: accepted values are the payload's values.

const (
	sigBytesPanic = "bytes-attr-panic"
	sigBytesNull  = "null-for-non-nullable-bytes"
)

// knownPrefix marks an oracle message that matches the classifier of a recorded
// finding: "KNOWN:<sig>:<message>". The caller abandons the case if the finding
// is listed and fails it otherwise.
const knownPrefix = "KNOWN:"

// settle fails the case, or abandons it if msg carries the signature of a
// listed known finding.
func settle(t *rapid.T, msg, context string) {
	if strings.HasPrefix(msg, knownPrefix) {
		rest := strings.TrimPrefix(msg, knownPrefix)
		i := strings.Index(rest, ":")
		exclude(rest[:i])
		msg = rest[i+1:]
	}

	t.Fatalf("%s\n%s", msg, context)
}

// bytesPanicKnown is the narrow classifier of the recorded C05 finding: an
// attribute of kind bytes given a JSON value that is not a string of standard
// base64 makes Attr.UnmarshalToType panic with the decoding error.
func bytesPanicKnown(attr jsonapi.Attr, lit string, p *oracle.Panic) bool {
	if p == nil || attr.Type != jsonapi.AttrTypeBytes || !p.In("Attr.UnmarshalToType") {
		return false
	}

	if _, isErr := p.Value.(error); !isErr {
		return false
	}

	if attr.Nullable && lit == "null" {
		return false
	}

	var b []byte
	if json.Unmarshal([]byte(lit), &b) == nil {
		return false // decodable input: a panic here would be something else
	}

	return true
}

func bigOf(v any) *big.Int {
	rv := reflect.ValueOf(v)

	switch rv.Kind() {
	case reflect.Int, reflect.Int8, reflect.Int16, reflect.Int32, reflect.Int64:
		return big.NewInt(rv.Int())
	case reflect.Uint, reflect.Uint8, reflect.Uint16, reflect.Uint32, reflect.Uint64:
		return new(big.Int).SetUint64(rv.Uint())
	}

	return nil
}

func inRange(kind int, n *big.Int) bool {
	lo, hi, _, ok := gen.IntRangeOf(kind)
	if !ok {
		return false
	}

	return n.Cmp(big.NewInt(lo)) >= 0 && n.Cmp(new(big.Int).SetUint64(hi)) <= 0
}

// faithful decides whether the stored value v is exactly what the literal
// denotes for the attribute; "" means yes.
func faithful(attr jsonapi.Attr, l gen.Lit, v any) string {
	isNil, base := gen.Deref(v)

	if l.JSONKind == "null" {
		if !attr.Nullable {
			msg := fmt.Sprintf("null accepted for non-nullable %s (stored %s)", gen.KindName(attr.Type, false), gen.Show(v))

			// Recorded finding: null is accepted for a non-nullable bytes
			// attribute and stored as the empty byte string.
			if b, ok := v.([]byte); ok && attr.Type == jsonapi.AttrTypeBytes && len(b) == 0 {
				return knownPrefix + sigBytesNull + ":" + msg
			}

			return msg
		}

		if !isNil {
			return fmt.Sprintf("null stored as %s", gen.Show(v))
		}

		return ""
	}

	if isNil {
		return fmt.Sprintf("%s stored as nil", l)
	}

	if want := gen.GoTypeOf(attr.Type, attr.Nullable); reflect.TypeOf(v) != want {
		return fmt.Sprintf("stored Go type %T, declared %v", v, want)
	}

	switch attr.Type {
	case jsonapi.AttrTypeString:
		if l.JSONKind != "string" {
			return fmt.Sprintf("%s accepted for a string attribute (stored %s)", l, gen.Show(v))
		}

		if base.(string) != l.Str {
			return fmt.Sprintf("%s stored as %s", l, gen.Show(v))
		}
	case jsonapi.AttrTypeBool:
		if l.JSONKind != "bool" {
			return fmt.Sprintf("%s accepted for a bool attribute (stored %s)", l, gen.Show(v))
		}

		if base.(bool) != l.Bool {
			return fmt.Sprintf("%s stored as %s", l, gen.Show(v))
		}
	case jsonapi.AttrTypeTime:
		if l.JSONKind != "string" || !l.HasInstant {
			return fmt.Sprintf("%s accepted for a time attribute (stored %s)", l, gen.Show(v))
		}

		got := base.(time.Time)
		if !got.Equal(l.Instant) && !(l.TruncNanos && got.Equal(l.Instant.Add(time.Nanosecond))) {
			return fmt.Sprintf("%s stored as the instant %s, want %s", l, gen.Show(v), l.Instant.Format(time.RFC3339Nano))
		}
	case jsonapi.AttrTypeBytes:
		if l.JSONKind != "string" || !l.HasBytes {
			return fmt.Sprintf("%s accepted for a bytes attribute (stored %s)", l, gen.Show(v))
		}

		if !bytes.Equal(base.([]byte), l.Bytes) {
			return fmt.Sprintf("%s stored as %s, want x%x", l, gen.Show(v), l.Bytes)
		}
	default:
		if l.JSONKind != "number" {
			return fmt.Sprintf("%s accepted for an integer attribute (stored %s)", l, gen.Show(v))
		}

		if !l.Integral {
			return fmt.Sprintf("non-integral %s accepted for %s (stored %s)", l, gen.KindName(attr.Type, false), gen.Show(v))
		}

		if !inRange(attr.Type, l.Int) {
			return fmt.Sprintf("%s is outside the range of %s but was accepted (stored %s)", l, gen.KindName(attr.Type, false), gen.Show(v))
		}

		if bigOf(base).Cmp(l.Int) != 0 {
			return fmt.Sprintf("%s stored as %s", l, gen.Show(v))
		}
	}

	return ""
}

func nearBoundary(attr jsonapi.Attr, l gen.Lit) bool {
	lo, hi, _, ok := gen.IntRangeOf(attr.Type)
	if !ok || !l.Integral {
		return false
	}

	for _, b := range []*big.Int{big.NewInt(lo), new(big.Int).SetUint64(hi)} {
		d := new(big.Int).Sub(l.Int, b)
		if d.CmpAbs(big.NewInt(3)) <= 0 {
			return true
		}
	}

	return false
}

func illTyped(attr jsonapi.Attr, l gen.Lit) bool {
	switch attr.Type {
	case jsonapi.AttrTypeString:
		return l.JSONKind != "string"
	case jsonapi.AttrTypeBool:
		return l.JSONKind != "bool"
	case jsonapi.AttrTypeTime:
		return !l.HasInstant
	case jsonapi.AttrTypeBytes:
		return !l.HasBytes || l.JSONKind != "string"
	}

	return l.JSONKind != "number" || !l.Integral || !inRange(attr.Type, l.Int)
}

// TestC06Literal drives Attr.UnmarshalToType directly: every kind x nullable
// crossed with literals of every JSON kind in varied spellings.
func TestC06Literal(t *testing.T) {
	r := rec.For("C06Literal")

	rapid.Check(t, prop(r, func(t *rapid.T) {
		attr := jsonapi.Attr{Name: "a", Type: rapid.SampledFrom(gen.Kinds).Draw(t, "kind"), Nullable: rapid.Bool().Draw(t, "nullable")}
		l := gen.AnyLit(t, attr, "lit", 4)

		var (
			v   any
			err error
		)

		desc := fmt.Sprintf("%s <- %s", gen.KindName(attr.Type, attr.Nullable), l)
		labels := []string{gen.KindName(attr.Type, attr.Nullable), "spelling:" + l.JSONKind}

		if p := oracle.Try(func() { v, err = attr.UnmarshalToType([]byte(l.Text)) }); p != nil {
			// Panic freedom is C05's subject; the case is inapplicable here (DESIGN §5.3a).
			if bytesPanicKnown(attr, l.Text, p) && kf.Known(sigBytesPanic) {
				r.Excluded(sigBytesPanic)
				return
			}

			r.Case(desc, false, append(labels, "discarded_panic")...)

			return
		}

		if err != nil {
			if v != nil {
				t.Fatalf("C06 violated: %s returned both a value %s and an error %v", desc, gen.Show(v), err)
			}

			r.Case(desc, nearBoundary(attr, l) || illTyped(attr, l) || !l.Canonical, append(labels, "rejected")...)

			return
		}

		if msg := faithful(attr, l, v); msg != "" {
			settle(t, msg, "C06 violated: "+desc)
		}

		// The value is the caller's: what it does to it must not show in any
		// later result (the process goes through many thousands of literals).
		scribbleValue(v)

		r.Case(desc, nearBoundary(attr, l) || illTyped(attr, l) || !l.Canonical, append(labels, "accepted")...)
	}))
}

// TestC06Exhaustive tries every integer literal in [-2^16-300, 2^16+300] on the
// 8- and 16-bit kinds (nullable or not): 8 x 131 673 calls.
func TestC06Exhaustive(t *testing.T) {
	r := rec.For("C06Exhaustive")

	for _, kind := range []int{jsonapi.AttrTypeInt8, jsonapi.AttrTypeUint8, jsonapi.AttrTypeInt16, jsonapi.AttrTypeUint16} {
		for _, nullable := range []bool{false, true} {
			attr := jsonapi.Attr{Name: "a", Type: kind, Nullable: nullable}

			for n := int64(-(1 << 16) - 300); n <= 1<<16+300; n++ {
				l := gen.Lit{JSONKind: "number", Text: fmt.Sprint(n), Integral: true, Int: big.NewInt(n), Rat: new(big.Rat).SetInt64(n), Spelling: "plain", Canonical: true}

				var (
					v   any
					err error
				)

				if p := oracle.Try(func() { v, err = attr.UnmarshalToType([]byte(l.Text)) }); p != nil {
					t.Fatalf("C06 exhaustive: %s <- %s: %s", gen.KindName(kind, nullable), l.Text, p)
				}

				if err == nil {
					if msg := faithful(attr, l, v); msg != "" {
						t.Fatalf("C06 violated: %s <- %s: %s", gen.KindName(kind, nullable), l.Text, msg)
					}
				}

				lab := "rejected"
				if err == nil {
					lab = "accepted"
				}

				r.Case(fmt.Sprintf("%s <- %d", gen.KindName(kind, nullable), n), nearBoundary(attr, l), lab)
			}
		}
	}

	r.Exhaustive("all plain integer literals in [-2^16-300, 2^16+300] on int8, uint8, int16, uint16 (nullable and not)")
}

// payloadOracle checks an accepted resource against the payload's meaning.
func payloadOracle(pc *gen.PayloadCase, res jsonapi.Resource) string {
	ts := pc.TS

	var msg string

	if p := oracle.Try(func() {
		if n := res.GetType().Name; n != ts.Name {
			msg = fmt.Sprintf("type %q, want %q", n, ts.Name)
			return
		}

		if id, _ := res.Get("id").(string); id != pc.ID {
			msg = fmt.Sprintf("id %q, want %q", id, pc.ID)
			return
		}

		for _, a := range ts.Attrs {
			l, present := pc.Attrs[a.Name]
			if !present {
				if ok, why := oracle.SameValue(a, gen.ZeroValue(a), res.Get(a.Name)); !ok && !(a.Nullable && isNilValue(res.Get(a.Name))) {
					msg = fmt.Sprintf("absent attribute %q does not hold its zero value: %s", a.Name, why)
					return
				}

				continue
			}

			if m := faithful(a, l, res.Get(a.Name)); m != "" {
				if strings.HasPrefix(m, knownPrefix) {
					msg = m
				} else {
					msg = fmt.Sprintf("attribute %q: %s", a.Name, m)
				}

				return
			}
		}

		for _, rel := range ts.Rels {
			f, present := pc.Rels[rel.FromName]
			want := []string{}

			if present && f.HasData {
				want = f.IDs
			}

			got := res.Get(rel.FromName)

			if rel.ToOne {
				s, ok := got.(string)
				if !ok {
					msg = fmt.Sprintf("to-one %q holds %T", rel.FromName, got)
					return
				}

				if (len(want) == 0 && s != "") || (len(want) == 1 && s != want[0]) || len(want) > 1 {
					msg = fmt.Sprintf("to-one %q holds %q, payload lists %q", rel.FromName, s, want)
					return
				}

				continue
			}

			ids, ok := got.([]string)
			if !ok {
				msg = fmt.Sprintf("to-many %q holds %T", rel.FromName, got)
				return
			}

			a := append([]string{}, ids...)
			b := append([]string{}, want...)

			sort.Strings(a)
			sort.Strings(b)

			if !reflect.DeepEqual(a, b) {
				msg = fmt.Sprintf("to-many %q holds %q, payload lists %q", rel.FromName, ids, want)
				return
			}
		}
	}); p != nil {
		return p.String()
	}

	return msg
}

func isNilValue(v any) bool {
	n, _ := gen.Deref(v)
	return n
}

// remarshalOracle re-marshals the accepted resource with everything selected
// and compares id, type, attributes and linkage with the payload's meaning.
func remarshalOracle(pc *gen.PayloadCase, ss *gen.SchemaSpec, res jsonapi.Resource) string {
	ts := pc.TS

	var out []byte
	if p := oracle.Try(func() { out = jsonapi.MarshalResource(res, "", ts.Fields(), allRelData(ss)) }); p != nil {
		return "re-marshal: " + p.String()
	}

	v, err := oracle.ParseJSON(out)
	if err != nil {
		return fmt.Sprintf("re-marshal is not valid JSON: %v: %s", err, out)
	}

	o, _ := v.(map[string]any)
	if o["id"] != pc.ID || o["type"] != ts.Name {
		return fmt.Sprintf("re-marshal has id=%v type=%v", o["id"], o["type"])
	}

	attrs, _ := o["attributes"].(map[string]any)

	for _, a := range ts.Attrs {
		l, present := pc.Attrs[a.Name]
		if !present {
			continue
		}

		got, ok := attrs[a.Name]
		if !ok {
			return fmt.Sprintf("re-marshal lacks attribute %q: %s", a.Name, out)
		}

		bad := fmt.Sprintf("re-marshal of attribute %q is %v, payload has %s", a.Name, got, l)

		switch {
		case l.JSONKind == "null":
			if got != nil {
				return bad
			}
		case a.Type == jsonapi.AttrTypeString:
			if got != l.Str {
				return bad
			}
		case a.Type == jsonapi.AttrTypeBool:
			if got != l.Bool {
				return bad
			}
		case a.Type == jsonapi.AttrTypeTime:
			s, _ := got.(string)

			tm, err := time.Parse(time.RFC3339Nano, s)
			if err != nil || (!tm.Equal(l.Instant) && !(l.TruncNanos && tm.Equal(l.Instant.Add(time.Nanosecond)))) {
				return bad
			}
		case a.Type == jsonapi.AttrTypeBytes:
			// A string again (the empty byte string is "", not null).
			s, isStr := got.(string)

			b, err := base64.StdEncoding.DecodeString(s)
			if !isStr || err != nil || !bytes.Equal(b, l.Bytes) {
				return bad
			}
		default:
			n, _ := got.(json.Number)

			bi, ok := new(big.Int).SetString(n.String(), 10)
			if !ok || bi.Cmp(l.Int) != 0 {
				return bad
			}
		}
	}

	rels, _ := o["relationships"].(map[string]any)

	for _, rel := range ts.Rels {
		f, present := pc.Rels[rel.FromName]
		if !present || !f.HasData {
			continue
		}

		ro, _ := rels[rel.FromName].(map[string]any)
		got := []string{}

		switch d := ro["data"].(type) {
		case nil:
		case map[string]any:
			if d["type"] != rel.ToType {
				return fmt.Sprintf("re-marshal of %q has type %v", rel.FromName, d["type"])
			}

			id, _ := d["id"].(string)
			got = append(got, id)
		case []any:
			for _, e := range d {
				eo, _ := e.(map[string]any)
				if eo["type"] != rel.ToType {
					return fmt.Sprintf("re-marshal of %q has type %v", rel.FromName, eo["type"])
				}

				id, _ := eo["id"].(string)
				got = append(got, id)
			}
		}

		want := append([]string{}, f.IDs...)
		sort.Strings(got)
		sort.Strings(want)

		if !reflect.DeepEqual(got, want) {
			return fmt.Sprintf("re-marshal of relationship %q lists %q, payload lists %q", rel.FromName, got, want)
		}
	}

	return ""
}

// TestC06Payload drives UnmarshalResource with full payloads.
func TestC06Payload(t *testing.T) {
	r := rec.For("C06Payload")

	rapid.Check(t, prop(r, func(t *rapid.T) {
		ss := gen.CoherentSchema(t, gen.SchemaOpts{MinTypes: 1, MaxTypes: 2, MaxAttrs: 5, MaxRelEdges: 4, AllKindsChance: 12})
		ts := &ss.Types[rapid.IntRange(0, len(ss.Types)-1).Draw(t, "type")]
		pc := gen.ResourcePayload(t, ts, gen.PayloadOpts{IllPerTen: 1, IllRelPerTen: 3, UnknownPerTen: 0})

		var (
			res jsonapi.Resource
			err error
		)

		labels := []string{}
		if len(ts.Fields()) > 64 {
			labels = append(labels, "fields>64")
		}

		if ts.Struct {
			labels = append(labels, "impl:struct")
		} else {
			labels = append(labels, "impl:soft")
		}

		nontrivial := false

		for _, a := range ts.Attrs {
			if l, ok := pc.Attrs[a.Name]; ok && (nearBoundary(a, l) || illTyped(a, l) || !l.Canonical) {
				nontrivial = true
			}
		}

		for _, f := range pc.Rels {
			labels = append(labels, "rel:"+f.Form)
		}

		// Another request handled just before this one (same schema, same
		// type, most fields set): accepted, or refused because its id is a
		// number. Nothing of it may show in the result under test.
		if rapid.IntRange(0, 3).Draw(t, "previous") == 0 {
			prev := gen.ResourcePayload(t, ts, gen.PayloadOpts{Canonical: true, AllFieldsOften: true}).Text
			if rapid.Bool().Draw(t, "previous-refused") {
				prev = `{"id":666,` + prev[1:]
			}

			oracle.Try(func() {
				_, _ = jsonapi.UnmarshalResource([]byte(prev), ss.Schema)
				_, _ = jsonapi.UnmarshalPartialResource([]byte(prev), ss.Schema)
			})

			labels = append(labels, "after-another-request")
		}

		// The payload on its own, or as the second member of a collection
		// whose first member is of any type of the schema (each member is
		// decoded against its own type).
		unmarshal := func() { res, err = jsonapi.UnmarshalResource([]byte(pc.Text), ss.Schema) }

		if rapid.IntRange(0, 3).Draw(t, "asmember") == 0 {
			first := ss.Types[rapid.IntRange(0, len(ss.Types)-1).Draw(t, "firsttype")].Name
			// (now and then many members in front of it: a size at which the
			// members may be handed to several workers)
			before := 1
			if rapid.IntRange(0, 9).Draw(t, "manymembers") == 0 {
				before = rapid.IntRange(31, 40).Draw(t, "nmembers")
			}

			// (one time in two the member right in front is a full resource of
			// the payload's own type: whatever it carries stays its own)
			full := ""
			memberIDs := make([]string, before)

			for i := range memberIDs {
				memberIDs[i] = fmt.Sprintf("first%d", i)
			}

			if rapid.Bool().Draw(t, "fullneighbour") {
				fp := gen.ResourcePayload(t, ts, gen.PayloadOpts{Canonical: true, AllFieldsOften: true})
				full, memberIDs[before-1] = fp.Text, fp.ID
			}

			text := "["
			for i := 0; i < before; i++ {
				if i == before-1 && full != "" {
					text += full + ","
					continue
				}

				text += `{"id":` + gen.QuoteJSON(memberIDs[i]) + `,"type":` + gen.QuoteJSON(first) + `},`
			}

			text += pc.Text + `]`
			labels = append(labels, "as-collection-member")

			unmarshal = func() {
				var col jsonapi.Collection

				col, err = jsonapi.UnmarshalCollection([]byte(text), ss.Schema)
				if err == nil {
					if col == nil || col.Len() != before+1 {
						t.Fatalf("C06 violated: UnmarshalCollection accepted an array of %d resource objects and returned %v\npayload: %s", before+1, col, text)
					}

					res = col.At(before)

					for i := 0; i < before; i++ {
						if m := col.At(i); m == nil || m.Get("id") != memberIDs[i] {
							t.Fatalf("C06 violated: member %d of the collection is not the one the payload lists there\npayload: %s", i, text)
						}
					}
				}
			}
		}

		if p := oracle.Try(unmarshal); p != nil {
			for _, a := range ts.Attrs {
				if l, ok := pc.Attrs[a.Name]; ok && bytesPanicKnown(a, l.Text, p) && kf.Known(sigBytesPanic) {
					r.Excluded(sigBytesPanic)
					return
				}
			}

			r.Case(pc.String(), false, append(labels, "discarded_panic")...)

			return
		}

		if err != nil {
			if res != nil {
				t.Fatalf("C06 violated: both a resource and an error %v\ncase: %s", err, pc)
			}

			if len(ts.Fields()) > 64 {
				labels = append(labels, "fields>64:rejected")
			}

			r.Case(pc.String(), nontrivial, append(labels, "rejected")...)

			return
		}

		if msg := payloadOracle(pc, res); msg != "" {
			settle(t, msg, "C06 violated; case: "+pc.String())
		}

		if msg := remarshalOracle(pc, ss, res); msg != "" {
			t.Fatalf("C06 violated: %s\ncase: %s", msg, pc)
		}

		scribble(pc.TS, res)

		r.Case(pc.String(), nontrivial, append(labels, "accepted")...)
	}))
}

func TestC06Regress(t *testing.T) {
	lit := func(kind int, nullable bool, text string) (any, error, *oracle.Panic) {
		var (
			v   any
			err error
		)

		p := oracle.Try(func() { v, err = jsonapi.Attr{Name: "a", Type: kind, Nullable: nullable}.UnmarshalToType([]byte(text)) })

		return v, err, p
	}

	t.Run("signed-integers-wrap", func(t *testing.T) {
		for _, c := range []struct {
			kind int
			text string
		}{
			{jsonapi.AttrTypeInt8, "300"}, {jsonapi.AttrTypeInt8, "128"}, {jsonapi.AttrTypeInt8, "-129"},
			{jsonapi.AttrTypeInt16, "32768"}, {jsonapi.AttrTypeInt16, "65536"}, {jsonapi.AttrTypeInt32, "2147483648"},
			{jsonapi.AttrTypeInt32, "-2147483649"}, {jsonapi.AttrTypeInt32, "4294967296"},
		} {
			for _, nullable := range []bool{false, true} {
				if v, err, p := lit(c.kind, nullable, c.text); p != nil || err == nil {
					t.Fatalf("C06 violated: %s literal %s accepted as %s (%v)", gen.KindName(c.kind, nullable), c.text, gen.Show(v), p)
				}
			}
		}
	})

	t.Run("null-for-non-nullable", func(t *testing.T) {
		for _, kind := range []int{jsonapi.AttrTypeString, jsonapi.AttrTypeTime, jsonapi.AttrTypeInt, jsonapi.AttrTypeBool} {
			if v, err, p := lit(kind, false, "null"); p != nil || err == nil {
				t.Fatalf("C06 violated: null accepted for non-nullable %s as %s (%v)", gen.KindName(kind, false), gen.Show(v), p)
			}
		}
	})

	t.Run("boundaries-accepted-unchanged", func(t *testing.T) {
		for _, c := range []struct {
			kind int
			text string
		}{
			{jsonapi.AttrTypeInt8, "-128"}, {jsonapi.AttrTypeInt8, "127"}, {jsonapi.AttrTypeUint8, "255"}, {jsonapi.AttrTypeInt16, "-32768"},
			{jsonapi.AttrTypeUint16, "65535"}, {jsonapi.AttrTypeInt32, "-2147483648"}, {jsonapi.AttrTypeUint32, "4294967295"},
			{jsonapi.AttrTypeInt64, "-9223372036854775808"}, {jsonapi.AttrTypeInt64, "9223372036854775807"}, {jsonapi.AttrTypeUint64, "18446744073709551615"},
			{jsonapi.AttrTypeInt, "-9223372036854775808"}, {jsonapi.AttrTypeUint, "18446744073709551615"},
		} {
			v, err, p := lit(c.kind, false, c.text)
			n, _ := new(big.Int).SetString(c.text, 10)

			if p != nil || err != nil || bigOf(v) == nil || bigOf(v).Cmp(n) != 0 {
				t.Fatalf("C06/C01: boundary %s of %s: %v %v %v", c.text, gen.KindName(c.kind, false), gen.Show(v), err, p)
			}
		}
	})

	t.Run("json-array-for-bytes", func(t *testing.T) {
		for _, text := range []string{"[]", "[1,2]", "[0]"} {
			for _, nullable := range []bool{false, true} {
				if v, err, p := lit(jsonapi.AttrTypeBytes, nullable, text); p != nil || err == nil {
					t.Fatalf("C06 violated: JSON array %s accepted for %s as %s (%v)", text, gen.KindName(jsonapi.AttrTypeBytes, nullable), gen.Show(v), p)
				}
			}
		}
	})

	t.Run("null-for-non-nullable-bytes", func(t *testing.T) {
		v, err, p := lit(jsonapi.AttrTypeBytes, false, "null")
		if p == nil && err != nil {
			return // repaired
		}

		if b, ok := v.([]byte); p == nil && ok && len(b) == 0 && kf.Known(sigBytesNull) {
			kf.Announce(sigBytesNull)
			return
		}

		t.Fatalf("C06 violated: null for a non-nullable bytes attribute gives %s, %v, %v", gen.Show(v), err, p)
	})
}

package props

import (
	"fmt"
	"math"
	"net/url"
	"reflect"
	"sort"
	"strings"
	"testing"

	"github.com/mfcochauxlaberge/jsonapi"
	"pgregory.net/rapid"

	"verif/harness/gen"
	"verif/harness/kf"
	"verif/harness/oracle"
	"verif/harness/rec"
)

// C08 — URL.String is a canonical form that parses back to the same URL.

const sigFieldsTruncated = "fields-param-truncated"

func fieldSets(m map[string][]string) map[string][]string {
	out := map[string][]string{}

	for k, v := range m {
		if len(v) == 0 {
			continue // a missing entry and an empty selection expose the same (nothing)
		}

		c := append([]string{}, v...)
		sort.Strings(c)
		out[k] = c
	}

	return out
}

// sameURL compares what C08 says must be recovered.
func sameURL(u, u2 *jsonapi.URL) string {
	if !reflect.DeepEqual(u.Fragments, u2.Fragments) {
		return fmt.Sprintf("fragments %q vs %q", u.Fragments, u2.Fragments)
	}

	if u.ResType != u2.ResType || u.ResID != u2.ResID || u.Rel != u2.Rel || u.IsCol != u2.IsCol {
		return fmt.Sprintf("type/id/rel/col %q %q %s %v vs %q %q %s %v", u.ResType, u.ResID, gen.RelString(u.Rel), u.IsCol, u2.ResType, u2.ResID, gen.RelString(u2.Rel), u2.IsCol)
	}

	if a, b := fieldSets(u.Params.Fields), fieldSets(u2.Params.Fields); !reflect.DeepEqual(a, b) {
		return fmt.Sprintf("field selection %v vs %v", a, b)
	}

	if len(u.Params.SortingRules)+len(u2.Params.SortingRules) > 0 && !reflect.DeepEqual(u.Params.SortingRules, u2.Params.SortingRules) {
		return fmt.Sprintf("sorting rules %q vs %q", u.Params.SortingRules, u2.Params.SortingRules)
	}

	if u.IsCol && len(u.Params.Page)+len(u2.Params.Page) > 0 && !reflect.DeepEqual(u.Params.Page, u2.Params.Page) {
		return fmt.Sprintf("page parameters %#v vs %#v", u.Params.Page, u2.Params.Page)
	}

	if u.Params.FilterLabel != u2.Params.FilterLabel {
		return fmt.Sprintf("filter label %q vs %q", u.Params.FilterLabel, u2.Params.FilterLabel)
	}

	if (u.Params.Filter == nil) != (u2.Params.Filter == nil) {
		return fmt.Sprintf("filter tree present=%v vs %v", u.Params.Filter != nil, u2.Params.Filter != nil)
	}

	if u.Params.Filter != nil {
		if why := sameFilter(u.Params.Filter, u2.Params.Filter, "filter"); why != "" {
			return "filter tree: " + why
		}
	}

	return ""
}

// sameFilter compares two filter trees member by member (not through their
// own JSON form, which is what is under test).
func sameFilter(a, b *jsonapi.Filter, where string) string {
	if (a == nil) != (b == nil) {
		return fmt.Sprintf("%s: present=%v vs %v", where, a != nil, b != nil)
	}

	if a == nil {
		return ""
	}

	if a.Field != b.Field || a.Op != b.Op || a.Col != b.Col {
		return fmt.Sprintf("%s: {f:%q o:%q c:%q} vs {f:%q o:%q c:%q}", where, a.Field, a.Op, a.Col, b.Field, b.Op, b.Col)
	}

	ka, aok := a.Val.([]*jsonapi.Filter)
	kb, bok := b.Val.([]*jsonapi.Filter)

	if aok != bok || len(ka) != len(kb) {
		return fmt.Sprintf("%s: operands %d (list=%v) vs %d (list=%v)", where, len(ka), aok, len(kb), bok)
	}

	if aok {
		for i := range ka {
			if why := sameFilter(ka[i], kb[i], fmt.Sprintf("%s.v[%d]", where, i)); why != "" {
				return why
			}
		}

		return ""
	}

	if ok, why := oracle.JSONEqual(a.Val, b.Val); !ok {
		return where + ".v: " + why
	}

	return ""
}

// canonicalOracle applies the fixed-point clause to one accepted URL.
func canonicalOracle(schema *jsonapi.Schema, u *jsonapi.URL) (s string, msg string) {
	if p := oracle.Try(func() { s = u.String() }); p != nil {
		return "", "String(): " + p.String()
	}

	// Recorded finding: for a type whose list of fields is empty String() writes
	// the truncated parameter "fields%5B<type>%" (pinned by the repository's
	// golden files), which is not a valid escape sequence.
	for _, tn := range gen.SortedKeys(u.Params.Fields) {
		if len(u.Params.Fields[tn]) != 0 {
			continue
		}

		bad := "fields%5B" + strings.ReplaceAll(url.QueryEscape(tn), "+", "%20") + "%"
		if strings.HasSuffix(s, bad) || strings.Contains(s, bad+"&") {
			// The recorded finding's model: the truncated parameter is not a
			// parameter at all (the parser skips what it cannot decode), so
			// the text behaves like the same text without it. Anything else
			// is another violation.
			clean := strings.Replace(s, bad+"&", "", 1)
			if clean == s {
				clean = strings.TrimSuffix(strings.TrimSuffix(s, bad), "&")
				clean = strings.TrimSuffix(clean, "?")
			}

			var (
				ua, ub *jsonapi.URL
				ea, eb error
				sa, sb string
			)

			if p := oracle.Try(func() {
				ua, ea = jsonapi.NewURLFromRaw(schema, s)
				ub, eb = jsonapi.NewURLFromRaw(schema, clean)

				if ea == nil && eb == nil {
					sa, sb = ua.String(), ub.String()
				}
			}); p != nil {
				return s, fmt.Sprintf("parsing String() = %q: %s", s, p)
			}

			if (ea == nil) != (eb == nil) || sa != sb {
				return s, fmt.Sprintf("String() = %q (truncated fields parameter of the field-less type %q) is not read like %q: %v / %q vs %v / %q", s, tn, clean, ea, sa, eb, sb)
			}

			return s, knownPrefix + sigFieldsTruncated + ":" + fmt.Sprintf("String() = %q has a truncated fields parameter for the field-less type %q", s, tn)
		}
	}

	pu, err := url.Parse(s)
	if err != nil {
		return s, fmt.Sprintf("String() = %q is not a URL: %v", s, err)
	}

	if _, err := url.ParseQuery(pu.RawQuery); err != nil {
		return s, fmt.Sprintf("String() = %q has a malformed query: %v", s, err)
	}

	var (
		u2   *jsonapi.URL
		err2 error
	)

	if p := oracle.Try(func() { u2, err2 = jsonapi.NewURLFromRaw(schema, s) }); p != nil {
		return s, fmt.Sprintf("parsing String() = %q: %s", s, p)
	}

	if err2 != nil {
		return s, fmt.Sprintf("String() = %q does not parse against the same schema: %v", s, err2)
	}

	if m := sameURL(u, u2); m != "" {
		return s, fmt.Sprintf("String() = %q parses to a different URL: %s", s, m)
	}

	var s2 string
	if p := oracle.Try(func() { s2 = u2.String() }); p != nil {
		return s, "String() of the re-parsed URL: " + p.String()
	}

	if s2 != s {
		return s, fmt.Sprintf("String() is not a fixed point: %q then %q", s, s2)
	}

	return s, ""
}

func reservedIn(req *gen.URLReq) bool {
	for _, seg := range req.PathSegs[1:] {
		if strings.ContainsAny(seg, " &?#%+/=,[]{}\"") {
			return true
		}
	}

	for _, p := range req.Params {
		if (p.Name == "filter" || strings.HasPrefix(p.Name, "page[")) && strings.ContainsAny(p.Value, " &?#%+/=") {
			return true
		}
	}

	return false
}

func TestC08FixedPoint(t *testing.T) {
	r := rec.For("C08FixedPoint")

	rapid.Check(t, prop(r, func(t *rapid.T) {
		o := urlSchemaOpts
		o.MaxAttrs = 3
		ss := gen.CoherentSchema(t, o)
		req := gen.URLRequest(t, ss, gen.URLOpts{Valid: true})
		raw := req.Render(t, "render")

		// Now and then something went wrong in the process just before: a
		// hand-built URL whose filter cannot be written (String() panics on
		// it, as the library documents). The URL under test is not concerned.
		if rapid.IntRange(0, 19).Draw(t, "poison") == 0 {
			bad := &jsonapi.URL{Fragments: []string{ss.Types[0].Name, "left over"}, ResType: ss.Types[0].Name, Params: &jsonapi.Params{
				Fields: map[string][]string{ss.Types[0].Name: {"left", "over"}},
				Filter: &jsonapi.Filter{Field: "x", Op: "=", Val: math.Inf(1)},
			}}

			func() {
				defer func() { _ = recover() }()

				_ = bad.String()
			}()
		}

		var (
			u   *jsonapi.URL
			err error
		)

		if p := oracle.Try(func() { u, err = jsonapi.NewURLFromRaw(ss.Schema, raw) }); p != nil {
			// Panic freedom of the parser is C07's subject.
			r.Case(raw, false, "discarded_panic")
			return
		}

		_, labels := urlNontrivial(req)

		if err != nil {
			r.Case(fmt.Sprintf("%s\n%s\nraw=%s", ss, req, raw), false, append(labels, "rejected")...)
			return
		}

		s, msg := canonicalOracle(ss.Schema, u)
		if msg != "" {
			settle(t, msg, fmt.Sprintf("C08 violated\nschema: %s\nrequest: %s\nraw: %s", ss, req, raw))
		}

		deepFilter := strings.Count(s, "%22o%22") >= 2 || strings.Count(s, `"o"`) >= 2
		reserved := reservedIn(req)

		if reserved {
			labels = append(labels, "reserved-characters")
		}

		if deepFilter {
			labels = append(labels, "filter-depth>=2")
		}

		r.Case(fmt.Sprintf("%s\n%s\nraw=%s\nstring=%s", ss, req, raw, s), reserved || deepFilter, append(labels, "accepted")...)
	}))
}

// permuteReq re-renders the same request: differently named parameters are
// permuted (same-named ones keep their relative order), names inside fields
// and include lists are shuffled, empty items are inserted into non-empty lists.
func permuteReq(t *rapid.T, req *gen.URLReq) (*gen.URLReq, bool) {
	out := &gen.URLReq{SS: req.SS, Shape: req.Shape, PathSegs: req.PathSegs}
	changed := false

	// Group by name, permute the groups, then interleave keeping in-group order.
	names := []string{}
	groups := map[string][]gen.QParam{}

	for _, p := range req.Params {
		if _, ok := groups[p.Name]; !ok {
			names = append(names, p.Name)
		}

		groups[p.Name] = append(groups[p.Name], p)
	}

	if len(names) > 1 {
		names = rapid.Permutation(names).Draw(t, "nameperm")
	}

	for _, n := range names {
		for _, p := range groups[n] {
			if strings.HasPrefix(p.Name, "fields[") || p.Name == "include" {
				items := gen.CommaItems(p.Value)
				if len(items) > 1 {
					items = rapid.Permutation(items).Draw(t, "itemperm")
				}

				if len(items) > 0 {
					for k := rapid.IntRange(0, 2).Draw(t, "nempty"); k > 0; k-- {
						pos := rapid.IntRange(0, len(items)).Draw(t, "emptypos")
						items = append(items[:pos], append([]string{""}, items[pos:]...)...)
					}

					p.Value = strings.Join(items, ",")
				}
			} else if p.Name == "sort" && p.Value != "" {
				// empty items in a sort list
				items := strings.Split(p.Value, ",")
				if rapid.Bool().Draw(t, "sortempty") {
					pos := rapid.IntRange(0, len(items)).Draw(t, "sortemptypos")
					items = append(items[:pos], append([]string{""}, items[pos:]...)...)
				}

				p.Value = strings.Join(items, ",")
			}

			out.Params = append(out.Params, p)
		}
	}

	if !reflect.DeepEqual(out.Params, req.Params) {
		changed = true
	}

	return out, changed
}

func TestC08Metamorphic(t *testing.T) {
	r := rec.For("C08Metamorphic")

	rapid.Check(t, prop(r, func(t *rapid.T) {
		o := urlSchemaOpts
		o.MaxAttrs = 3
		ss := gen.CoherentSchema(t, o)
		req := gen.URLRequest(t, ss, gen.URLOpts{Valid: true})
		req2, changed := permuteReq(t, req)
		raw1 := req.Render(t, "render1")
		raw2 := req2.Render(t, "render2")

		var (
			u1, u2     *jsonapi.URL
			err1, err2 error
			s1, s2     string
		)

		if p := oracle.Try(func() {
			u1, err1 = jsonapi.NewURLFromRaw(ss.Schema, raw1)
			u2, err2 = jsonapi.NewURLFromRaw(ss.Schema, raw2)
		}); p != nil {
			r.Case(raw1, false, "discarded_panic")
			return
		}

		if err1 != nil || err2 != nil {
			r.Case(fmt.Sprintf("%s\n%s\nraw1=%s\nraw2=%s", ss, req, raw1, raw2), false, "rejected")
			return
		}

		if p := oracle.Try(func() { s1, s2 = u1.String(), u2.String() }); p != nil {
			t.Fatalf("C08 violated: String(): %s\nraw1: %s\nraw2: %s", p, raw1, raw2)
		}

		if s1 != s2 {
			t.Fatalf("C08 violated: equivalent URLs have different String()\nschema: %s\nrequest1: %s\nrequest2: %s\nraw1: %s\nraw2: %s\nString1: %s\nString2: %s", ss, req, req2, raw1, raw2, s1, s2)
		}

		lab := "permutation-unchanged"
		if changed {
			lab = "permutation-changed"
		}

		r.Case(fmt.Sprintf("%s\nraw1=%s\nraw2=%s\nstring=%s", ss, raw1, raw2, s1), changed && len(req.Params) >= 2, lab, "accepted")
	}))
}

func TestC08Regress(t *testing.T) {
	ss := gen.BuildSchema([]gen.TypeSpec{
		{Name: "t", Attrs: []jsonapi.Attr{{Name: "n", Type: jsonapi.AttrTypeInt}}, Rels: []jsonapi.Rel{{FromType: "t", FromName: "e", ToType: "empty", ToOne: true}}},
		{Name: "empty"},
	})

	for name, raw := range map[string]string{
		"id-with-reserved-characters": "/t/a%20b%3Fc%23d%25e+f%26g",
		"label-with-reserved":         "/t?filter=a%26b%3Dc%20d%2Be%23f%25g",
		"label-with-backslash":        `/t?filter=a%5Cnb`,
		"label-with-plus":             "/t?filter=a+b",
		"filter-big-number":           `/t?filter={"f":"n","o":"=","v":1e21}`,
		"filter-strings":              `/t?filter={"f":"n","o":"=","v":"a%26b%3Dc+d%2B%23"}`,
		"page-other":                  "/t?page[foo]=bar&page[size]=3",
		"page-value-reserved":         "/t?page[size]=a%26b%20c",
		"type-without-fields":         "/empty",
		"included-type-without-field": "/t?include=e",
		"nested-filter":               `/t?filter={"o":"and","v":[{"o":"or","v":[]},{"f":"n","o":"<","v":3}]}`,
	} {
		t.Run(name, func(t *testing.T) {
			u, err := jsonapi.NewURLFromRaw(ss.Schema, raw)
			if err != nil {
				return // only accepted URLs are constrained
			}

			if _, msg := canonicalOracle(ss.Schema, u); msg != "" {
				if strings.HasPrefix(msg, knownPrefix+sigFieldsTruncated+":") && kf.Known(sigFieldsTruncated) {
					kf.Announce(sigFieldsTruncated)
					return
				}

				t.Fatalf("C08 violated: %s\nraw: %s", msg, raw)
			}
		})
	}
}

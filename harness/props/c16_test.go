package props

import (
	"fmt"
	"reflect"
	"strings"
	"testing"

	"github.com/mfcochauxlaberge/jsonapi"
	"pgregory.net/rapid"

	"verif/harness/gen"
	"verif/harness/oracle"
	"verif/harness/rec"
)

// C16 — two-way relationships have one canonical representative.

// relLaws checks the value-level laws of C16 on one relationship and returns a
// description of the first one that is broken ("" if none).
func relLaws(r jsonapi.Rel) string {
	var (
		inv, inv2, n, n2, ninv jsonapi.Rel
		s, sinv                string
	)

	if p := oracle.Try(func() {
		inv = r.Invert()
		inv2 = inv.Invert()
		n = r.Normalize()
		n2 = n.Normalize()
		ninv = inv.Normalize()
		s = r.String()
		sinv = inv.String()
	}); p != nil {
		return p.String()
	}

	if inv2 != r {
		return fmt.Sprintf("Invert(Invert(r)) = %s", relDesc(inv2))
	}

	// The inverse of a two-way relationship is the same relationship seen
	// from the other side - known without asking the library: both halves
	// swapped. The "same result for a relationship and for its inverse" law
	// is checked against that one.
	side := jsonapi.Rel{FromType: r.ToType, FromName: r.ToName, ToOne: r.FromOne, ToType: r.FromType, ToName: r.FromName, FromOne: r.ToOne}

	if canonicalDomain(r) {
		if inv != side {
			return fmt.Sprintf("Invert(r) = %s, the relationship seen from the other side is %s", relDesc(inv), relDesc(side))
		}

		var nside jsonapi.Rel

		var sside string

		if p := oracle.Try(func() { nside, sside = side.Normalize(), side.String() }); p != nil {
			return p.String()
		}

		if nside != n || sside != s {
			return fmt.Sprintf("Normalize / String of r give %s / %q, of the other side %s / %q", relDesc(n), s, relDesc(nside), sside)
		}
	}

	if n != r && n != inv {
		return fmt.Sprintf("Normalize(r) = %s is neither r nor its inverse", relDesc(n))
	}

	if n2 != n {
		return fmt.Sprintf("Normalize is not idempotent: Normalize(r) = %s, Normalize(Normalize(r)) = %s", relDesc(n), relDesc(n2))
	}

	if r.ToName == "" && n != r {
		return fmt.Sprintf("Normalize changed a one-way relationship into %s", relDesc(n))
	}

	if canonicalDomain(r) {
		if n != ninv {
			return fmt.Sprintf("Normalize(r) = %s but Normalize(Invert(r)) = %s", relDesc(n), relDesc(ninv))
		}

		if s != sinv {
			return fmt.Sprintf("String() = %q but Invert().String() = %q", s, sinv)
		}
	}

	return ""
}

// canonicalDomain: the "same result for a relationship and its inverse" law is
// stated for two-way relationships (both ends named, types named). A
// relationship with the same type and name on both ends is included: if its
// two cardinalities agree it is its own inverse and the law is trivial, if
// they differ the inverse is another value and must normalise to the same one.
func canonicalDomain(r jsonapi.Rel) bool {
	return r.FromName != "" && r.ToName != "" && r.FromType != "" && r.ToType != ""
}

func collides(r jsonapi.Rel) bool {
	a, b := r.FromType+r.FromName, r.ToType+r.ToName
	return a == b || strings.HasPrefix(a, b) || strings.HasPrefix(b, a)
}

func relDesc(r jsonapi.Rel) string {
	return fmt.Sprintf("Rel{%q %q toOne=%v -> %q %q fromOne=%v}", r.FromType, r.FromName, r.ToOne, r.ToType, r.ToName, r.FromOne)
}

// TestC16Exhaustive enumerates every relationship value whose four names are
// words of length <= 2 over {a,b} (7 words) with both cardinalities: 9 604 values.
func TestC16Exhaustive(t *testing.T) {
	r := rec.For("C16Exhaustive")
	words := []string{"", "a", "b", "aa", "ab", "ba", "bb"}

	for _, ft := range words {
		for _, fn := range words {
			for _, tt := range words {
				for _, tn := range words {
					for c := 0; c < 4; c++ {
						rel := jsonapi.Rel{FromType: ft, FromName: fn, ToType: tt, ToName: tn, ToOne: c&1 == 1, FromOne: c&2 == 2}
						if v := relLaws(rel); v != "" {
							t.Fatalf("C16 violated for %s: %s", relDesc(rel), v)
						}

						lab := "one-way"
						if canonicalDomain(rel) {
							lab = "two-way"
						}

						r.Case(relDesc(rel), canonicalDomain(rel) && collides(rel), lab)
					}
				}
			}
		}
	}

	r.Exhaustive("all Rel values with names over {a,b}, length <= 2")
}

// TestC16Laws draws relationship values over {a,b,_} with names of length 0..3.
func TestC16Laws(t *testing.T) {
	r := rec.For("C16Laws")
	name := rapid.StringMatching(`[ab_]{0,3}`)

	rapid.Check(t, prop(r, func(t *rapid.T) {
		rel := jsonapi.Rel{
			FromType: name.Draw(t, "fromType"), FromName: name.Draw(t, "fromName"),
			ToType: name.Draw(t, "toType"), ToName: name.Draw(t, "toName"),
			ToOne: rapid.Bool().Draw(t, "toOne"), FromOne: rapid.Bool().Draw(t, "fromOne"),
		}

		if rapid.IntRange(0, 3).Draw(t, "collide") == 0 && len(rel.FromType+rel.FromName) > 0 {
			// Force a concatenation collision: move the split point.
			whole := rel.FromType + rel.FromName
			cut := rapid.IntRange(0, len(whole)).Draw(t, "cut")
			rel.ToType, rel.ToName = whole[:cut], whole[cut:]
		}

		if v := relLaws(rel); v != "" {
			t.Fatalf("C16 violated for %s: %s", relDesc(rel), v)
		}

		lab := "one-way"
		if canonicalDomain(rel) {
			lab = "two-way"
		}

		if collides(rel) {
			lab += "+collision"
		}

		r.Case(relDesc(rel), canonicalDomain(rel) && collides(rel), lab)
	}))
}

// expectedRelGroups computes, from the spec alone, the groups Rels() must list
// once each: every one-way relationship, and every two-way pair.
func expectedRelGroups(ss *gen.SchemaSpec) map[string][]jsonapi.Rel {
	groups := map[string][]jsonapi.Rel{}

	for _, ts := range ss.Types {
		for _, r := range ts.Rels {
			var key string

			if r.ToName == "" {
				key = fmt.Sprintf("one %q %q", r.FromType, r.FromName)
			} else {
				a := fmt.Sprintf("%q %q", r.FromType, r.FromName)
				b := fmt.Sprintf("%q %q", r.ToType, r.ToName)

				if b < a {
					a, b = b, a
				}

				key = "two " + a + " " + b
			}

			groups[key] = append(groups[key], r)
		}
	}

	return groups
}

func groupOf(groups map[string][]jsonapi.Rel, r jsonapi.Rel) string {
	for _, k := range gen.SortedKeys(groups) {
		for _, m := range groups[k] {
			// Rels() lists normalised relationships: an entry is a stored
			// relationship or the inverse of one.
			if m == r || m.Invert() == r {
				return k
			}
		}
	}

	return ""
}

// TestC16Schema: Rels() of a coherent schema lists each one-way relationship and
// each two-way pair exactly once, in an order independent of insertion order.
func TestC16Schema(t *testing.T) {
	r := rec.For("C16Schema")

	rapid.Check(t, prop(r, func(t *rapid.T) {
		opts := gen.DefaultSchemaOpts
		opts.MaxAttrs = 1
		opts.AllKindsChance = 0
		opts.MaxRelEdges = 8
		opts.OddCardinality = true

		// One schema in five is dense: enough relationships for a list of
		// more than a dozen entries.
		if rapid.IntRange(0, 4).Draw(t, "dense") == 0 {
			opts.MinTypes, opts.MaxTypes, opts.MaxRelEdges = 3, 6, 45
		}

		ss := gen.CoherentSchema(t, opts)

		if errs := ss.Schema.Check(); len(errs) != 0 {
			t.Fatalf("generator bug: schema is not coherent: %v", errs)
		}

		perm := rapid.Permutation(ss.Types).Draw(t, "order")
		ss2 := gen.BuildSchema(append([]gen.TypeSpec{}, perm...))

		var rels1, rels1b, rels2 []jsonapi.Rel

		if p := oracle.Try(func() {
			rels1 = ss.Schema.Rels()
			rels1b = ss.Schema.Rels()
			rels2 = ss2.Schema.Rels()
		}); p != nil {
			t.Fatalf("C16 violated: Rels() %s on %s", p, ss)
		}

		groups := expectedRelGroups(ss)
		seen := map[string]int{}

		for _, rel := range rels1 {
			k := groupOf(groups, rel)
			if k == "" {
				t.Fatalf("C16 violated: Rels() lists %s which is not a relationship of %s", gen.RelString(rel), ss)
			}

			seen[k]++
		}

		for _, k := range gen.SortedKeys(groups) {
			if seen[k] != 1 {
				t.Fatalf("C16 violated: group %s (%d members) is listed %d times by Rels() = %v on %s",
					k, len(groups[k]), seen[k], relsString(rels1), ss)
			}
		}

		if len(rels1) != len(groups) {
			t.Fatalf("C16 violated: Rels() has %d entries, want %d on %s", len(rels1), len(groups), ss)
		}

		// When the two sides of a pair disagree about cardinality (Check only
		// compares names) either side's normal form may be listed: such
		// entries are compared by their names only.
		if a, b := relsKey(rels1, groups), relsKey(rels1b, groups); a != b {
			t.Fatalf("C16 violated: two calls of Rels() differ: %s vs %s on %s", relsString(rels1), relsString(rels1b), ss)
		}

		if a, b := relsKey(rels1, groups), relsKey(rels2, groups); a != b {
			t.Fatalf("C16 violated: Rels() depends on insertion order: %s vs %s on %s", relsString(rels1), relsString(rels2), ss)
		}

		// A third way of building the same schema: the types first, then one
		// relationship or pair at a time through the schema's editing calls,
		// with a Rels() query after every edit. If an edit is refused the
		// variant is dropped (editing is C14's subject).
		keys := gen.SortedKeys(groups)
		if len(keys) > 1 {
			keys = rapid.Permutation(keys).Draw(t, "editorder")
		}

		s3 := &jsonapi.Schema{}
		built := true

		if p := oracle.Try(func() {
			for _, ts := range perm {
				typ := ss.Schema.GetType(ts.Name)
				typ.Rels = map[string]jsonapi.Rel{}

				if s3.AddType(typ) != nil {
					built = false
					return
				}
			}

			for _, k := range keys {
				g := groups[k]

				// A relationship may first have been declared otherwise
				// (another cardinality), looked at, taken out and declared
				// anew: what counts is what the schema holds in the end.
				if rapid.IntRange(0, 3).Draw(t, "redeclared") == 0 {
					first := g[0]
					first.ToOne = !first.ToOne

					var err error

					if first.ToName != "" {
						first.FromOne = !first.FromOne
						err = s3.AddTwoWayRel(first)
					} else {
						err = s3.AddRel(first.FromType, first)
					}

					if err == nil {
						s3.Rels()
						s3.RemoveRel(first.FromType, first.FromName)

						if first.ToName != "" {
							s3.RemoveRel(first.ToType, first.ToName)
						}
					}
				}

				switch {
				case len(g) == 2 && g[0].Invert() == g[1]:
					if s3.AddTwoWayRel(g[rapid.IntRange(0, 1).Draw(t, "side")]) != nil {
						built = false
					}
				case len(g) == 1 && g[0].ToName != "" && g[0].Invert() == g[0]:
					// its own inverse
					if s3.AddTwoWayRel(g[0]) != nil {
						built = false
					}
				default:
					for _, m := range g {
						if s3.AddRel(m.FromType, m) != nil {
							built = false
						}
					}
				}

				if !built {
					return
				}

				// a query between two edits, or not
				if rapid.Bool().Draw(t, "queryBetween") {
					s3.Rels()
				}
			}
		}); p != nil {
			t.Fatalf("C16 violated: building the schema edit by edit %s on %s", p, ss)
		}

		editBuilt := built && libSnapshot(s3) == libSnapshot(ss2.Schema)

		if editBuilt {
			var rels3 []jsonapi.Rel

			if p := oracle.Try(func() { rels3 = s3.Rels() }); p != nil {
				t.Fatalf("C16 violated: Rels() %s on %s (built edit by edit)", p, ss)
			}

			if a, b := relsKey(rels1, groups), relsKey(rels3, groups); a != b {
				t.Fatalf("C16 violated: Rels() depends on how the schema was built: %s, but %s when the relationships are added one by one (order %q) on %s", relsString(rels1), relsString(rels3), keys, ss)
			}
		}

		pairs := 0
		collision := false

		for _, k := range gen.SortedKeys(groups) {
			if strings.HasPrefix(k, "two") {
				pairs++
			}

			for _, m := range groups[k] {
				if collides(m) || strings.Contains(m.FromType+m.FromName, "_") {
					collision = true
				}
			}
		}

		r.Case(ss.String(), pairs >= 2 || (pairs >= 1 && collision),
			fmt.Sprintf("pairs=%d", min(pairs, 4)), fmt.Sprintf("types=%d", len(ss.Types)), fmt.Sprintf("also-built-edit-by-edit=%v", editBuilt))
	}))
}

// relsKey renders a Rels() result for comparison: full values, except for the
// entries of pairs whose two sides disagree about cardinality (names only).
func relsKey(rels []jsonapi.Rel, groups map[string][]jsonapi.Rel) string {
	var b strings.Builder

	for _, r := range rels {
		consistent := true

		if g := groups[groupOf(groups, r)]; len(g) == 2 && g[0].Invert() != g[1] {
			consistent = false
		}

		if consistent {
			b.WriteString(relDesc(r))
		} else {
			fmt.Fprintf(&b, "pair{%q %q <-> %q %q}", r.FromType, r.FromName, r.ToType, r.ToName)
		}

		b.WriteString("; ")
	}

	return b.String()
}

func relsString(rels []jsonapi.Rel) string {
	parts := make([]string, len(rels))
	for i := range rels {
		parts[i] = gen.RelString(rels[i])
	}

	return "[" + strings.Join(parts, ", ") + "]"
}

// TestC16Regress: literal witnesses of the findings of C16.
func TestC16Regress(t *testing.T) {
	t.Run("concatenation-collision", func(t *testing.T) {
		rel := jsonapi.Rel{FromType: "ab", FromName: "c", ToOne: true, ToType: "a", ToName: "bc", FromOne: false}
		if v := relLaws(rel); v != "" {
			t.Fatalf("C16 violated for %s: %s", relDesc(rel), v)
		}
	})

	t.Run("own-inverse-unequal-cardinality", func(t *testing.T) {
		rel := jsonapi.Rel{FromType: "a", FromName: "x", ToOne: true, ToType: "a", ToName: "x", FromOne: false}
		if v := relLaws(rel); v != "" {
			t.Fatalf("C16 violated for %s: %s", relDesc(rel), v)
		}
	})

	t.Run("underscore-collision-in-Rels", func(t *testing.T) {
		ss := gen.BuildSchema([]gen.TypeSpec{
			{Name: "a_b", Rels: []jsonapi.Rel{{FromType: "a_b", FromName: "c", ToType: "t", ToOne: true}}},
			{Name: "a", Rels: []jsonapi.Rel{{FromType: "a", FromName: "b_c", ToType: "t", ToOne: true}}},
			{Name: "t"},
		})
		if n := len(ss.Schema.Rels()); n != 2 {
			t.Fatalf("C16 violated: Rels() lists %d of 2 distinct one-way relationships on %s", n, ss)
		}
	})

	t.Run("order-of-Rels-with-equal-concatenations", func(t *testing.T) {
		specs := []gen.TypeSpec{
			{Name: "ab", Rels: []jsonapi.Rel{{FromType: "ab", FromName: "c", ToType: "t", ToOne: true}}},
			{Name: "a", Rels: []jsonapi.Rel{{FromType: "a", FromName: "bc", ToType: "t", ToOne: true}}},
			{Name: "t"},
		}
		ss := gen.BuildSchema(specs)
		first := ss.Schema.Rels()

		for i := 0; i < 200; i++ {
			if again := ss.Schema.Rels(); !reflect.DeepEqual(first, again) {
				t.Fatalf("C16 violated: Rels() order changes between calls: %s vs %s", relsString(first), relsString(again))
			}
		}
	})
}

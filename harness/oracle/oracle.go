// Package oracle holds the reference models and comparison predicates of the
// harness. They are written from the property statements and never call the
// function under test a second time.
package oracle

import (
	"bytes"
	"fmt"
	"reflect"
	"runtime"
	"sort"
	"strings"
	"time"

	"github.com/mfcochauxlaberge/jsonapi"

	"verif/harness/gen"
)

// Panic describes a panic raised by a call into the library.
type Panic struct {
	Value  any
	Frames []string // library frames, innermost first
}

func (p *Panic) String() string {
	return fmt.Sprintf("panic(%v) at %s", p.Value, strings.Join(p.Frames, " < "))
}

// In reports whether one of the library frames contains the given function name.
func (p *Panic) In(fn string) bool {
	for _, f := range p.Frames {
		if strings.Contains(f, fn) {
			return true
		}
	}

	return false
}

// Try runs f (a call into the library, never a rapid Draw or a t.Fatalf) and
// converts a panic into a value.
func Try(f func()) (p *Panic) {
	defer func() {
		if r := recover(); r != nil {
			p = &Panic{Value: r}
			pcs := make([]uintptr, 64)
			n := runtime.Callers(2, pcs)
			frames := runtime.CallersFrames(pcs[:n])

			for {
				fr, more := frames.Next()
				if strings.Contains(fr.Function, "mfcochauxlaberge/jsonapi.") {
					name := fr.Function[strings.LastIndex(fr.Function, "jsonapi.")+len("jsonapi."):]
					p.Frames = append(p.Frames, name)
				}

				if !more {
					break
				}
			}

			// Only panics that come out of the library are results; anything
			// else (a failed assertion of the harness, rapid stopping a case)
			// goes on.
			if len(p.Frames) == 0 {
				panic(r)
			}
		}
	}()

	f()

	return nil
}

// SameValue is typed value equality as the properties define it: integers
// exactly, strings code point for code point, times as the same instant, byte
// strings by content with nil == empty, nullable values nil (typed or untyped)
// vs. non-nil compared by pointee. The dynamic Go type of the base value must
// be the declared one on both sides.
func SameValue(attr jsonapi.Attr, a, b any) (bool, string) {
	an, av := gen.Deref(a)
	bn, bv := gen.Deref(b)

	if an || bn {
		if !attr.Nullable {
			return false, fmt.Sprintf("nil value for non-nullable %s: %s vs %s", gen.KindName(attr.Type, false), gen.Show(a), gen.Show(b))
		}

		if an != bn {
			return false, fmt.Sprintf("null-ness differs: %s vs %s", gen.Show(a), gen.Show(b))
		}

		return true, ""
	}

	want := gen.GoTypeOf(attr.Type, attr.Nullable)
	if reflect.TypeOf(a) != want || reflect.TypeOf(b) != want {
		return false, fmt.Sprintf("Go type: %T vs %T, declared %v", a, b, want)
	}

	switch x := av.(type) {
	case time.Time:
		if !x.Equal(bv.(time.Time)) {
			return false, fmt.Sprintf("instants differ: %s vs %s", gen.Show(a), gen.Show(b))
		}
	case []byte:
		if !bytes.Equal(x, bv.([]byte)) {
			return false, fmt.Sprintf("bytes differ: %s vs %s", gen.Show(a), gen.Show(b))
		}
	default:
		if av != bv {
			return false, fmt.Sprintf("values differ: %s vs %s", gen.Show(a), gen.Show(b))
		}
	}

	return true, ""
}

// SameRel compares relationship values: to-one by string, to-many as multisets
// (nil == empty).
func SameRel(rel jsonapi.Rel, a, b any) (bool, string) {
	if rel.ToOne {
		as, ok1 := a.(string)
		bs, ok2 := b.(string)

		if !ok1 || !ok2 {
			return false, fmt.Sprintf("to-one value is not a string: %T vs %T", a, b)
		}

		if as != bs {
			return false, fmt.Sprintf("to-one IDs differ: %q vs %q", as, bs)
		}

		return true, ""
	}

	as, ok1 := a.([]string)
	bs, ok2 := b.([]string)

	if !ok1 || !ok2 {
		return false, fmt.Sprintf("to-many value is not a []string: %T vs %T", a, b)
	}

	ac := append([]string{}, as...)
	bc := append([]string{}, bs...)

	sort.Strings(ac)
	sort.Strings(bc)

	if !reflect.DeepEqual(ac, bc) {
		return false, fmt.Sprintf("to-many IDs differ: %q vs %q", ac, bc)
	}

	return true, ""
}

// SameSet compares to-many values as sets.
func SameSet(a, b []string) bool {
	as := map[string]bool{}
	bs := map[string]bool{}

	for _, x := range a {
		as[x] = true
	}

	for _, x := range b {
		bs[x] = true
	}

	return reflect.DeepEqual(as, bs)
}

// SnapshotResource copies everything observable of a resource through the
// Resource interface: type name, ID, attribute and relationship definitions and
// deep copies of every value. To-many lists are kept in order unless sortMany.
func SnapshotResource(r jsonapi.Resource, sortMany bool) string {
	var b strings.Builder

	typ := r.GetType()
	fmt.Fprintf(&b, "type=%q id=%q attrs[", typ.Name, r.Get("id"))

	attrs := r.Attrs()
	for _, n := range gen.SortedKeys(attrs) {
		a := attrs[n]
		fmt.Fprintf(&b, "%s/%s:%s=%s ", n, a.Name, gen.KindName(a.Type, a.Nullable), gen.Show(r.Get(a.Name)))
	}

	b.WriteString("] rels[")

	rels := r.Rels()
	for _, n := range gen.SortedKeys(rels) {
		rel := rels[n]
		v := r.Get(rel.FromName)

		if ids, ok := v.([]string); ok && sortMany {
			c := append([]string{}, ids...)
			sort.Strings(c)
			v = c
		}

		fmt.Fprintf(&b, "%s/%s=%s ", n, gen.RelString(rel), gen.Show(v))
	}

	b.WriteString("]")

	return b.String()
}

// SnapshotType renders a Type value's exported state.
func SnapshotType(typ jsonapi.Type) string {
	var b strings.Builder

	fmt.Fprintf(&b, "%q attrs(nil=%v)[", typ.Name, typ.Attrs == nil)

	for _, n := range gen.SortedKeys(typ.Attrs) {
		a := typ.Attrs[n]
		fmt.Fprintf(&b, "%q:{%q %d %v} ", n, a.Name, a.Type, a.Nullable)
	}

	fmt.Fprintf(&b, "] rels(nil=%v)[", typ.Rels == nil)

	for _, n := range gen.SortedKeys(typ.Rels) {
		r := typ.Rels[n]
		fmt.Fprintf(&b, "%q:{%q %q %v %q %q %v} ", n, r.FromType, r.FromName, r.ToOne, r.ToType, r.ToName, r.FromOne)
	}

	fmt.Fprintf(&b, "] newfunc=%v", typ.NewFunc != nil)

	return b.String()
}

// SnapshotSchema renders a schema's exported state (type order included).
func SnapshotSchema(s *jsonapi.Schema) string {
	parts := make([]string, len(s.Types))
	for i := range s.Types {
		parts[i] = SnapshotType(s.Types[i])
	}

	return fmt.Sprintf("types(%d)[%s]", len(s.Types), strings.Join(parts, " | "))
}

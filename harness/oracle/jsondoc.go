package oracle

import (
	"bytes"
	"encoding/json"
	"fmt"
	"net/url"
	"reflect"
	"sort"
	"strings"
)

// ParseJSON decodes bytes into the generic JSON model (numbers kept as
// json.Number) and rejects trailing data.
func ParseJSON(b []byte) (any, error) {
	dec := json.NewDecoder(bytes.NewReader(b))
	dec.UseNumber()

	var v any
	if err := dec.Decode(&v); err != nil {
		return nil, err
	}

	if dec.More() {
		return nil, fmt.Errorf("trailing data after the JSON value")
	}

	return v, nil
}

// ResObj is a resource object found in a marshaled document.
type ResObj struct {
	Where string // "data", "data[2]", "included[0]"
	Obj   map[string]any
	Type  string
	ID    string
}

// DocShape is the decoded top level of a marshaled document.
type DocShape struct {
	Top      map[string]any
	HasData  bool
	DataNull bool
	DataList bool
	Primary  []ResObj
	Included []ResObj
}

// DecodeDocument parses output bytes and collects the resource objects.
// identifiers tells that primary data consists of resource identifier objects,
// which carry no links.
func DecodeDocument(out []byte) (*DocShape, error) {
	v, err := ParseJSON(out)
	if err != nil {
		return nil, fmt.Errorf("output is not valid JSON: %v", err)
	}

	top, ok := v.(map[string]any)
	if !ok {
		return nil, fmt.Errorf("top level is not an object")
	}

	ds := &DocShape{Top: top}

	collect := func(where string, v any) (ResObj, error) {
		o, ok := v.(map[string]any)
		if !ok {
			return ResObj{}, fmt.Errorf("%s is not an object", where)
		}

		typ, ok1 := o["type"].(string)
		id, ok2 := o["id"].(string)

		if !ok1 || !ok2 {
			return ResObj{}, fmt.Errorf("%s: type and id must be strings, got type=%v id=%v", where, o["type"], o["id"])
		}

		return ResObj{Where: where, Obj: o, Type: typ, ID: id}, nil
	}

	if d, ok := top["data"]; ok {
		ds.HasData = true

		switch d := d.(type) {
		case nil:
			ds.DataNull = true
		case []any:
			ds.DataList = true

			for i, e := range d {
				ro, err := collect(fmt.Sprintf("data[%d]", i), e)
				if err != nil {
					return nil, err
				}

				ds.Primary = append(ds.Primary, ro)
			}
		default:
			ro, err := collect("data", d)
			if err != nil {
				return nil, err
			}

			ds.Primary = append(ds.Primary, ro)
		}
	}

	if inc, ok := top["included"]; ok {
		l, ok := inc.([]any)
		if !ok {
			return nil, fmt.Errorf("included is not an array")
		}

		for i, e := range l {
			ro, err := collect(fmt.Sprintf("included[%d]", i), e)
			if err != nil {
				return nil, err
			}

			ds.Included = append(ds.Included, ro)
		}
	}

	return ds, nil
}

func linkString(v any) (string, bool) {
	switch l := v.(type) {
	case string:
		return l, true
	case map[string]any:
		s, ok := l["href"].(string)
		return s, ok
	}

	return "", false
}

// ValidateStructure checks the C03 rules that depend only on the output and the
// path prefix. identifiers: primary data are resource identifier objects.
func ValidateStructure(ds *DocShape, prepath string, identifiers bool) error {
	top := ds.Top

	if _, ok := top["jsonapi"].(map[string]any); !ok {
		return fmt.Errorf("no jsonapi member (object) at the top level")
	}

	links, ok := top["links"].(map[string]any)
	if !ok {
		return fmt.Errorf("no links object at the top level")
	}

	if _, ok := linkString(links["self"]); !ok {
		return fmt.Errorf("top-level links.self is not a link: %v", links["self"])
	}

	_, hasErrors := top["errors"]
	_, hasIncluded := top["included"]

	if ds.HasData && hasErrors {
		return fmt.Errorf("both data and errors are present")
	}

	if hasIncluded && !ds.HasData {
		return fmt.Errorf("included is present without data")
	}

	if hasErrors {
		if _, ok := top["errors"].([]any); !ok {
			return fmt.Errorf("errors is not an array")
		}
	}

	prefix := prepath
	if !strings.HasSuffix(prefix, "/") {
		prefix += "/"
	}

	check := func(ro ResObj, identifier bool) error {
		if identifier {
			return nil
		}

		l, ok := ro.Obj["links"].(map[string]any)
		if !ok {
			return fmt.Errorf("%s has no links object", ro.Where)
		}

		self, ok := linkString(l["self"])
		if !ok {
			return fmt.Errorf("%s: links.self is not a link: %v", ro.Where, l["self"])
		}

		if ro.ID != "" && ro.Type != "" {
			raw := prefix + ro.Type + "/" + ro.ID
			esc := prefix + ro.Type + "/" + url.PathEscape(ro.ID)
			esc2 := prefix + url.PathEscape(ro.Type) + "/" + url.PathEscape(ro.ID)

			if self != raw && self != esc && self != esc2 {
				return fmt.Errorf("%s: self link %q is not prefix+type+\"/\"+id = %q", ro.Where, self, raw)
			}
		} else if self != prefix && self != prefix+ro.Type+"/" && self != prefix+url.PathEscape(ro.Type)+"/" {
			// Without an ID (or a type name) the link is the prefix, or the
			// prefix and the type with nothing behind: either way made of
			// the same parts, with one slash between them however the
			// prefix was spelled.
			return fmt.Errorf("%s: self link %q of a resource without ID is neither the prefix %q nor prefix+type+\"/\"", ro.Where, self, prefix)
		}

		if relsAny, ok := ro.Obj["relationships"]; ok {
			rels, ok := relsAny.(map[string]any)
			if !ok {
				return fmt.Errorf("%s: relationships is not an object", ro.Where)
			}

			for name, rv := range rels {
				rel, ok := rv.(map[string]any)
				if !ok {
					return fmt.Errorf("%s: relationship %q is not an object", ro.Where, name)
				}

				rl, ok := rel["links"].(map[string]any)
				if !ok {
					return fmt.Errorf("%s: relationship %q has no links", ro.Where, name)
				}

				for _, k := range []string{"self", "related"} {
					s, ok := linkString(rl[k])
					if !ok {
						return fmt.Errorf("%s: relationship %q has no %s link", ro.Where, name, k)
					}

					if !strings.HasPrefix(s, self) || !strings.HasSuffix(s, name) && !strings.HasSuffix(s, url.PathEscape(name)) {
						return fmt.Errorf("%s: relationship %q %s link %q does not extend the self link %q", ro.Where, name, k, s, self)
					}
				}

				if d, ok := rel["data"]; ok {
					if err := validLinkage(d); err != nil {
						return fmt.Errorf("%s: relationship %q: %v", ro.Where, name, err)
					}
				}
			}
		}

		if a, ok := ro.Obj["attributes"]; ok {
			if _, ok := a.(map[string]any); !ok {
				return fmt.Errorf("%s: attributes is not an object", ro.Where)
			}
		}

		return nil
	}

	for _, ro := range ds.Primary {
		if err := check(ro, identifiers); err != nil {
			return err
		}
	}

	for _, ro := range ds.Included {
		if err := check(ro, false); err != nil {
			return err
		}
	}

	return nil
}

func validLinkage(d any) error {
	one := func(v any) error {
		o, ok := v.(map[string]any)
		if !ok {
			return fmt.Errorf("linkage %v is not an object", v)
		}

		_, ok1 := o["type"].(string)
		_, ok2 := o["id"].(string)

		if !ok1 || !ok2 || len(o) != 2 {
			return fmt.Errorf("linkage %v is not a {type,id} pair of strings", v)
		}

		return nil
	}

	switch d := d.(type) {
	case nil:
		return nil
	case []any:
		for _, e := range d {
			if err := one(e); err != nil {
				return err
			}
		}

		return nil
	default:
		return one(d)
	}
}

// Keys returns the sorted member names of a JSON object (nil for a missing or
// non-object value).
func Keys(v any) []string {
	o, ok := v.(map[string]any)
	if !ok {
		return []string{}
	}

	ks := make([]string, 0, len(o))
	for k := range o {
		ks = append(ks, k)
	}

	sort.Strings(ks)

	return ks
}

// JSONEqual compares two Go values by their JSON encodings read back into the
// generic model (nil map == empty map at the top level is the caller's business).
func JSONEqual(a, b any) (bool, string) {
	ab, err1 := json.Marshal(a)
	bb, err2 := json.Marshal(b)

	if err1 != nil || err2 != nil {
		return false, fmt.Sprintf("cannot encode: %v %v", err1, err2)
	}

	av, _ := ParseJSON(ab)
	bv, _ := ParseJSON(bb)

	if !reflect.DeepEqual(av, bv) {
		return false, fmt.Sprintf("%s vs %s", ab, bb)
	}

	return true, ""
}

package oracle

import (
	"bytes"
	"fmt"
	"math/big"
	"reflect"
	"sort"
	"strings"
	"time"

	"verif/harness/gen"
)

// compareBase returns -1, 0, +1 for two non-nil base values of the same
// ordered kind, and ok=false for kinds without an order (bool).
func compareBase(a, b any) (int, bool) {
	switch x := a.(type) {
	case string:
		return strings.Compare(x, b.(string)), true
	case []byte:
		return bytes.Compare(x, b.([]byte)), true
	case time.Time:
		return x.Compare(b.(time.Time)), true
	case bool:
		return 0, false
	}

	ai, bi := toBig(a), toBig(b)
	if ai == nil || bi == nil {
		panic(fmt.Sprintf("oracle: compareBase(%T, %T)", a, b))
	}

	return ai.Cmp(bi), true
}

func toBig(v any) *big.Int {
	rv := reflect.ValueOf(v)

	switch rv.Kind() {
	case reflect.Int, reflect.Int8, reflect.Int16, reflect.Int32, reflect.Int64:
		return big.NewInt(rv.Int())
	case reflect.Uint, reflect.Uint8, reflect.Uint16, reflect.Uint32, reflect.Uint64:
		return new(big.Int).SetUint64(rv.Uint())
	}

	return nil
}

func equalBase(a, b any) bool {
	switch x := a.(type) {
	case []byte:
		return bytes.Equal(x, b.([]byte))
	case time.Time:
		return x.Equal(b.(time.Time))
	case bool:
		return x == b.(bool)
	case string:
		return x == b.(string)
	}

	return toBig(a).Cmp(toBig(b)) == 0
}

// EvalAttrOp is the reference verdict of an attribute leaf: rv is the value
// the resource holds, cv the filter's value (both of the attribute's Go type;
// nil pointers and untyped nil are nil).
func EvalAttrOp(op string, rv, cv any) bool {
	rnil, rb := gen.Deref(rv)
	cnil, cb := gen.Deref(cv)

	if rnil || cnil {
		switch op {
		case "=":
			return rnil && cnil
		case "!=":
			return !(rnil && cnil)
		}

		return false // a nil value is never ordered; unknown operators allow nothing
	}

	switch op {
	case "=":
		return equalBase(rb, cb)
	case "!=":
		return !equalBase(rb, cb)
	case "<", "<=", ">", ">=":
		c, ordered := compareBase(rb, cb)
		if !ordered {
			return false
		}

		switch op {
		case "<":
			return c < 0
		case "<=":
			return c <= 0
		case ">":
			return c > 0
		default:
			return c >= 0
		}
	}

	return false
}

// EvalFilter is the reference evaluation of a filter tree on the modelled
// values of a resource.
func EvalFilter(n *gen.FNode, ts *gen.TypeSpec, vals map[string]any) bool {
	switch n.Op {
	case "and":
		for _, k := range n.Kids {
			if !EvalFilter(k, ts, vals) {
				return false
			}
		}

		return true
	case "or":
		for _, k := range n.Kids {
			if EvalFilter(k, ts, vals) {
				return true
			}
		}

		return false
	}

	if n.Group {
		return false
	}

	if _, ok := ts.Attr(n.Field); ok {
		if n.Op == "in" {
			s := vals[n.Field].(string)
			for _, x := range n.Val.([]string) {
				if x == s {
					return true
				}
			}

			return false
		}

		return EvalAttrOp(n.Op, vals[n.Field], n.Val)
	}

	r, _ := ts.Rel(n.Field)
	if r.ToOne {
		cur := vals[n.Field].(string)

		switch n.Op {
		case "=":
			return cur == n.Val.(string)
		case "!=":
			return cur != n.Val.(string)
		case "in":
			for _, x := range n.Val.([]string) {
				if x == cur {
					return true
				}
			}
		case "<":
			return cur < n.Val.(string)
		case "<=":
			return cur <= n.Val.(string)
		case ">":
			return cur > n.Val.(string)
		case ">=":
			return cur >= n.Val.(string)
		}

		return false
	}

	cur := vals[n.Field].([]string)

	switch n.Op {
	case "has":
		for _, x := range cur {
			if x == n.Val.(string) {
				return true
			}
		}

		return false
	case "=", "!=":
		a := append([]string{}, cur...)
		b := append([]string{}, n.Val.([]string)...)

		sort.Strings(a)
		sort.Strings(b)

		eq := reflect.DeepEqual(a, b)

		return eq == (n.Op == "=")
	}

	return false
}

// CompareOrdered returns -1, 0, +1 for two non-nil base values of the same
// ordered kind (numeric, lexicographic for strings and byte strings,
// chronological for times).
func CompareOrdered(a, b any) int {
	c, ok := compareBase(a, b)
	if !ok {
		panic(fmt.Sprintf("oracle: CompareOrdered(%T)", a))
	}

	return c
}

package gen

import (
	"fmt"
	"strings"

	"github.com/mfcochauxlaberge/jsonapi"
	"pgregory.net/rapid"
)

// QParam is one query parameter, decoded.
type QParam struct {
	Name  string
	Value string
}

// URLReq is a request description: the oracle of C07/C08 works from it, never
// from re-parsing the rendered text.
type URLReq struct {
	SS       *SchemaSpec
	Shape    string   // col, res, related, self, odd
	PathSegs []string // decoded path segments as the client meant them
	Params   []QParam
}

func (r *URLReq) String() string {
	ps := make([]string, len(r.Params))
	for i, p := range r.Params {
		ps[i] = fmt.Sprintf("%q=%q", p.Name, p.Value)
	}

	return fmt.Sprintf("%s path=%q params=[%s]", r.Shape, r.PathSegs, strings.Join(ps, " "))
}

// Frags returns the path fragments the decoded path splits into.
func (r *URLReq) Frags() []string {
	out := []string{}

	for _, f := range strings.Split(strings.Join(r.PathSegs, "/"), "/") {
		if f != "" {
			out = append(out, f)
		}
	}

	return out
}

// First returns the first value of the named parameter.
func (r *URLReq) First(name string) (string, bool) {
	for _, p := range r.Params {
		if p.Name == name {
			return p.Value, true
		}
	}

	return "", false
}

// All returns every value of the named parameter, in order.
func (r *URLReq) All(name string) []string {
	out := []string{}

	for _, p := range r.Params {
		if p.Name == name {
			out = append(out, p.Value)
		}
	}

	return out
}

// CommaItems splits a list value, dropping empty items.
func CommaItems(v string) []string {
	out := []string{}

	for _, it := range strings.Split(v, ",") {
		if it != "" {
			out = append(out, it)
		}
	}

	return out
}

func isUnreserved(c byte) bool {
	return c >= 'a' && c <= 'z' || c >= 'A' && c <= 'Z' || c >= '0' && c <= '9' || c == '-' || c == '_' || c == '.' || c == '~'
}

// encode percent-encodes s for a URL component. Characters in keepRaw may be
// left as they are (a random choice); unreserved characters are encoded with a
// small probability; a space in a query may become '+'.
func encode(t *rapid.T, s, keepRaw string, query bool, label string) string {
	var b strings.Builder

	fancy := rapid.IntRange(0, 3).Draw(t, label+"-fancy") == 0

	for i := 0; i < len(s); i++ {
		c := s[i]

		switch {
		case isUnreserved(c):
			if fancy && rapid.IntRange(0, 5).Draw(t, label+"-encu") == 0 {
				fmt.Fprintf(&b, "%%%02X", c)
			} else {
				b.WriteByte(c)
			}
		case c == ' ' && query && rapid.Bool().Draw(t, label+"-plus"):
			b.WriteByte('+')
		case strings.IndexByte(keepRaw, c) >= 0 && rapid.IntRange(0, 2).Draw(t, label+"-raw") > 0:
			b.WriteByte(c)
		default:
			if fancy && rapid.Bool().Draw(t, label+"-lower") {
				fmt.Fprintf(&b, "%%%02x", c)
			} else {
				fmt.Fprintf(&b, "%%%02X", c)
			}
		}
	}

	return b.String()
}

// Render turns the description into a raw URL with a randomly chosen but valid
// percent-encoding.
func (r *URLReq) Render(t *rapid.T, label string) string {
	var b strings.Builder

	if len(r.PathSegs) == 0 {
		b.WriteString(rapid.SampledFrom([]string{"", "/"}).Draw(t, label+"-emptypath"))
	}

	for _, seg := range r.PathSegs {
		b.WriteByte('/')
		// '/' inside a segment is always encoded (%2F).
		b.WriteString(encode(t, seg, ":@$!*'(),=", false, label+"-seg"))
	}

	if len(r.PathSegs) > 0 && rapid.IntRange(0, 9).Draw(t, label+"-trail") == 0 {
		b.WriteByte('/')
	}

	for i, p := range r.Params {
		if i == 0 {
			b.WriteByte('?')
		} else {
			b.WriteByte('&')
		}

		b.WriteString(encode(t, p.Name, "[]:@!$'()*,/?", true, label+"-pname"))
		b.WriteByte('=')
		b.WriteString(encode(t, p.Value, "[]:@!$'()*,/?{}\"", true, label+"-pval"))
	}

	return b.String()
}

// FilterJSON draws the JSON text of a filter tree (generic values, not typed
// against the schema: parsing does not validate them).
func FilterJSON(t *rapid.T, fields []string, depth int, label string) string {
	if depth > 0 && rapid.IntRange(0, 2).Draw(t, label+"-node") == 0 {
		n := rapid.IntRange(0, 3).Draw(t, label+"-n")
		kids := make([]string, n)

		for i := range kids {
			// (null is a well-formed member of a JSON list)
			if rapid.IntRange(0, 7).Draw(t, label+"-nullkid") == 3 {
				kids[i] = "null"
				continue
			}

			kids[i] = FilterJSON(t, fields, depth-1, label+"-k")
		}

		op := rapid.SampledFrom([]string{"and", "or"}).Draw(t, label+"-op")

		// (a combining node may carry a collation too; its members come in
		// any order, like those of a leaf)
		parts := []string{fmt.Sprintf(`"o":%q`, op), fmt.Sprintf(`"v":[%s]`, strings.Join(kids, ","))}

		if rapid.IntRange(0, 3).Draw(t, label+"-nodecol") == 0 {
			parts = append(parts, `"c":"nocase"`)
		}

		if rapid.IntRange(0, 2).Draw(t, label+"-nodeperm") == 0 {
			parts = rapid.Permutation(parts).Draw(t, label+"-nodeperm-order")
		}

		return "{" + strings.Join(parts, ",") + "}"
	}

	f := "x"
	if len(fields) > 0 {
		f = rapid.SampledFrom(fields).Draw(t, label+"-f")
	}

	op := rapid.SampledFrom([]string{"=", "!=", "<", "<=", ">", ">=", "in", "has", "weird"}).Draw(t, label+"-lop")

	var v string

	switch rapid.IntRange(0, 7).Draw(t, label+"-vk") {
	case 0:
		v = "null"
	case 1:
		v = rapid.SampledFrom([]string{"true", "false"}).Draw(t, label+"-b")
	case 2:
		v = rapid.SampledFrom([]string{"0", "-1", "12", "1.5", "1e21", "1e-7", "12345678901234567890", "-0"}).Draw(t, label+"-num")
	case 3, 4:
		v, _ = JSONString(t, HostileString(t, label+"-s"), label+"-s")
	case 5:
		v = `["a","b c"]`
	case 6:
		v = `{"k":[1,"&"]}`
	default:
		v = `"2020-01-01T00:00:00+01:00"`
	}

	parts := []string{fmt.Sprintf(`"f":%s`, QuoteJSON(f)), fmt.Sprintf(`"o":%s`, QuoteJSON(op)), `"v":` + v}

	if rapid.IntRange(0, 3).Draw(t, label+"-col") == 0 {
		parts = append(parts, `"c":"utf8 ci"`)
	}

	if rapid.IntRange(0, 5).Draw(t, label+"-extra") == 0 {
		parts = append(parts, `"zzz":1`)
	}

	parts = rapid.Permutation(parts).Draw(t, label+"-perm")

	return "{" + strings.Join(parts, ",") + "}"
}

// URLOpts tunes the request generator.
type URLOpts struct {
	Valid      bool // only parameters and names the parser should accept (C08 wants accepted URLs)
	NoTriggers bool
}

func relNames(ts *TypeSpec) []string {
	out := []string{}
	for _, r := range ts.Rels {
		out = append(out, r.FromName)
	}

	return out
}

func attrNames(ts *TypeSpec) []string {
	out := []string{}
	for _, a := range ts.Attrs {
		out = append(out, a.Name)
	}

	return out
}

// IncludePath draws a dotted inclusion path of 1..5 names starting at ts,
// following real relationships with high probability.
func IncludePath(t *rapid.T, ss *SchemaSpec, ts *TypeSpec, valid bool, label string) string {
	n := rapid.IntRange(1, 4).Draw(t, label+"-depth")
	cur := ts
	names := []string{}

	for i := 0; i < n; i++ {
		rels := []string{}
		if cur != nil {
			rels = relNames(cur)
		}

		if len(rels) > 0 && (valid || rapid.IntRange(0, 5).Draw(t, label+"-ok") > 0) {
			name := rapid.SampledFrom(rels).Draw(t, label+"-rel")
			r, _ := cur.Rel(name)
			names = append(names, name)
			cur = ss.Type(r.ToType)
		} else {
			if valid {
				break
			}

			names = append(names, rapid.SampledFrom([]string{"nope", "x", "r", "id"}).Draw(t, label+"-unk"))
			cur = nil
		}
	}

	return strings.Join(names, ".")
}

// URLRequest draws a request description against a coherent schema.
func URLRequest(t *rapid.T, ss *SchemaSpec, o URLOpts) *URLReq {
	r := &URLReq{SS: ss}
	ts := &ss.Types[rapid.IntRange(0, len(ss.Types)-1).Draw(t, "utype")]

	id := func(label string) string {
		s := IDString(t, label, false)
		if o.Valid {
			// an ID that is a path keyword or contains '/' changes the shape; keep for the general generator only
			s = strings.ReplaceAll(s, "/", "|")
		}

		return s
	}

	shape := rapid.SampledFrom([]string{"col", "col", "col", "res", "related", "self", "odd", "deep"}).Draw(t, "shape")
	if (shape == "related" || shape == "self" || shape == "deep") && len(ts.Rels) == 0 {
		shape = "col"
	}

	if shape == "odd" && o.Valid {
		shape = "res"
	}

	r.Shape = shape
	resType := ts

	switch shape {
	case "col":
		r.PathSegs = []string{ts.Name}
	case "res":
		r.PathSegs = []string{ts.Name, id("rid")}
	case "related", "self":
		rel := ts.Rels[rapid.IntRange(0, len(ts.Rels)-1).Draw(t, "urel")]
		resType = ss.Type(rel.ToType)

		if shape == "related" {
			r.PathSegs = []string{ts.Name, id("rid"), rel.FromName}
		} else {
			r.PathSegs = []string{ts.Name, id("rid"), "relationships", rel.FromName}
		}
	case "deep":
		// /type/id/<1..3 extra segments>/rel : the parser takes the last
		// fragment as the relationship whatever comes in between.
		rel := ts.Rels[rapid.IntRange(0, len(ts.Rels)-1).Draw(t, "urel")]
		resType = ss.Type(rel.ToType)
		r.PathSegs = []string{ts.Name, id("rid")}
		mid := append([]string{"relationships", "x", "meta"}, relNames(ts)...)

		for k := rapid.IntRange(1, 3).Draw(t, "nmid"); k > 0; k-- {
			r.PathSegs = append(r.PathSegs, rapid.SampledFrom(mid).Draw(t, "mid"))
		}

		r.PathSegs = append(r.PathSegs, rel.FromName)
	default:
		n := rapid.IntRange(0, 6).Draw(t, "nsegs")
		pool := []string{ts.Name, "nope", "meta", "relationships", "", "x/y", id("rid")}
		pool = append(pool, relNames(ts)...)

		for i := 0; i < n; i++ {
			seg := rapid.SampledFrom(pool).Draw(t, "seg")
			if seg == "" && len(r.PathSegs) == 0 {
				continue // "//x" would make x the authority, not a path segment
			}

			r.PathSegs = append(r.PathSegs, seg)
		}
	}

	if resType == nil {
		resType = ts
	}

	typeNames := []string{}
	for i := range ss.Types {
		typeNames = append(typeNames, ss.Types[i].Name)
	}

	nparams := rapid.IntRange(0, 6).Draw(t, "nparams")
	kinds := []string{"fields", "fields", "sort", "sort", "include", "include", "page", "filter-label", "filter-json", "repeat"}

	if !o.Valid {
		kinds = append(kinds, "unknown", "empty-value", "odd-name")
	} else {
		kinds = append(kinds, "empty-ok")
	}

	hasFilter := false

	for i := 0; i < nparams; i++ {
		kind := rapid.SampledFrom(kinds).Draw(t, "pkind")

		switch kind {
		case "fields":
			tn := rapid.SampledFrom(typeNames).Draw(t, "ftype")
			if rapid.IntRange(0, 2).Draw(t, "fres") > 0 {
				tn = resType.Name
			}

			if !o.Valid && rapid.IntRange(0, 7).Draw(t, "funk") == 0 {
				tn = rapid.SampledFrom([]string{"nope", "", "a b"}).Draw(t, "funkname")
			}

			if _, dup := r.First("fields[" + tn + "]"); dup && o.Valid {
				continue
			}

			pool := []string{"id"}
			if fts := ss.Type(tn); fts != nil {
				pool = append(pool, fts.Fields()...)
			}

			if !o.Valid {
				pool = append(pool, "nope", "", " ")

				// fields of the other types: not fields of this one
				for i := range ss.Types {
					if ss.Types[i].Name != tn {
						pool = append(pool, ss.Types[i].Fields()...)
					}
				}
			}

			n := rapid.IntRange(0, 5).Draw(t, "nfields")
			items := []string{}
			seen := map[string]bool{}

			for j := 0; j < n; j++ {
				it := rapid.SampledFrom(pool).Draw(t, "field")
				if o.Valid && seen[it] {
					continue
				}

				seen[it] = true
				items = append(items, it)
			}

			// As many names as the type has fields without being its fields:
			// one of them replaced by "id", by a name given already or by an
			// unknown name.
			if fts := ss.Type(tn); fts != nil && len(fts.Fields()) > 1 && len(fts.Fields()) <= 80 && rapid.IntRange(0, 7).Draw(t, "asmany") == 5 {
				items = rapid.Permutation(fts.Fields()).Draw(t, "asmany-order")
				at := rapid.IntRange(0, len(items)-1).Draw(t, "asmany-at")

				switch k := rapid.IntRange(0, 2).Draw(t, "asmany-kind"); {
				case o.Valid && k == 1:
					// (a name that is not a field is left out by the parser:
					// what is kept has as many names as the type has fields)
					items[at] = "id"
					un := rapid.IntRange(0, len(items)).Draw(t, "asmany-unknown-at")
					items = append(items[:un:un], append([]string{"zz-not-a-field"}, items[un:]...)...)
				case o.Valid || k == 0:
					items[at] = "id"
				case k == 1:
					items[at] = items[(at+1)%len(items)]
				default:
					items[at] = "nope"
				}
			}

			// A name given twice, taken from the far end of the type's
			// sorted field list (of a wide type: beyond the 64th field).
			if fts := ss.Type(tn); !o.Valid && fts != nil && len(fts.Fields()) > 0 && rapid.IntRange(0, 5).Draw(t, "twice") == 0 {
				fs := fts.Fields()
				d := fs[len(fs)-1-rapid.IntRange(0, min(len(fs)-1, 4)).Draw(t, "twice-rank")]
				at := rapid.IntRange(0, len(items)).Draw(t, "twice-at")
				items = append(items[:at:at], append([]string{d}, items[at:]...)...)
				items = append(items, d)
			}

			r.Params = append(r.Params, QParam{"fields[" + tn + "]", strings.Join(items, ",")})
		case "sort":
			pool := append([]string{"id", "-id"}, attrNames(resType)...)
			for _, a := range attrNames(resType) {
				pool = append(pool, "-"+a)
			}

			if !o.Valid {
				pool = append(pool, "nope", "-", "", "-nope", " ", "  ", "- ", "--id", "---id", "--", "+id")
				pool = append(pool, relNames(resType)...)

				// Exactly one leading dash means descending; more dashes, or
				// other decorations, do not name an attribute.
				for _, a := range attrNames(resType) {
					pool = append(pool, "--"+a, "---"+a, "+"+a, a+"-", " "+a)
				}

				// A path through a to-one relationship to an attribute of
				// its target is not an attribute of the type either.
				for _, rel := range resType.Rels {
					if target := ss.Type(rel.ToType); rel.ToOne && target != nil {
						for _, a := range attrNames(target) {
							pool = append(pool, rel.FromName+"."+a, "-"+rel.FromName+"."+a)
						}
					}
				}
			}

			n := rapid.IntRange(0, 5).Draw(t, "nrules")
			if !o.Valid && rapid.IntRange(0, 7).Draw(t, "manyrules") == 0 {
				n = rapid.IntRange(6, 12).Draw(t, "nrules-many")
			}

			items := []string{}

			for j := 0; j < n; j++ {
				items = append(items, rapid.SampledFrom(pool).Draw(t, "rule"))
			}

			// Two attributes one of whose names is the other's with one
			// character in front (id / uid, int / uint): the longer one first,
			// both in the caller's order.
			names := attrNames(resType)
			for _, long := range names {
				for _, short := range append([]string{"id"}, names...) {
					if rs := []rune(long); len(rs) > 1 && string(rs[1:]) == short && rapid.IntRange(0, 2).Draw(t, "onecharpair") == 0 {
						items = append(items, long, rapid.SampledFrom([]string{"", "-"}).Draw(t, "onecharpair-dir")+short)
					}
				}
			}

			r.Params = append(r.Params, QParam{"sort", strings.Join(items, ",")})
		case "include":
			n := rapid.IntRange(0, 4).Draw(t, "nincs")
			items := []string{}

			for j := 0; j < n; j++ {
				items = append(items, IncludePath(t, ss, resType, o.Valid, "inc"))
			}

			if !o.Valid && rapid.IntRange(0, 4).Draw(t, "incempty") == 0 {
				items = append(items, "")
			}

			r.Params = append(r.Params, QParam{"include", strings.Join(items, ",")})
		case "page":
			key := rapid.SampledFrom([]string{"size", "number", "size", "number", "other", "a b", "cursor"}).Draw(t, "pagekey")
			val := rapid.SampledFrom([]string{"0", "1", "10", "007", "-3", "+5", "abc", "9223372036854775808", " 5", "1e3", "20.0", "-0.0", "1712.5", "0x10", "1_000", "٣"}).Draw(t, "pageval")

			if rapid.IntRange(0, 3).Draw(t, "pagehostile") == 0 {
				val = HostileString(t, "pagestr")
			}

			if _, dup := r.First("page[" + key + "]"); dup && o.Valid {
				continue
			}

			r.Params = append(r.Params, QParam{"page[" + key + "]", val})
		case "filter-label":
			if hasFilter && o.Valid {
				continue
			}

			hasFilter = true
			v := HostileString(t, "label")

			if rapid.IntRange(0, 5).Draw(t, "label-brace") == 0 {
				// Labels that look like the start of a filter object once
				// something in front of the brace is dropped or decoded.
				v = rapid.SampledFrom([]string{" {x}", "  {}", " {", "\t{a}", "\n {\"f\":1}", "{x}", "{}", "a{b}", "\u00a0{}"}).Draw(t, "label-brace-shape")
			}

			if o.Valid {
				// A label is read as the body of a JSON string: quotes,
				// backslashes and control characters are written as JSON
				// escapes (any character may be); its first raw byte must
				// not be '{' and it must not be empty.
				if v == "" {
					v = "lbl"
				}

				q, style := JSONString(t, v, "label-json")
				if style != "u-escape-all" && strings.HasPrefix(v, "{") {
					q = "\"\\u007b" + q[2:]
				}

				v = q[1 : len(q)-1]
			}

			r.Params = append(r.Params, QParam{"filter", v})
		case "filter-json":
			if hasFilter && o.Valid {
				continue
			}

			hasFilter = true
			r.Params = append(r.Params, QParam{"filter", FilterJSON(t, resType.Fields(), 3, "flt")})
		case "repeat":
			if len(r.Params) > 0 && !o.Valid {
				r.Params = append(r.Params, r.Params[rapid.IntRange(0, len(r.Params)-1).Draw(t, "repeatidx")])
			} else if len(r.Params) > 0 {
				// sort and include may be repeated: their values are concatenated
				p := r.Params[rapid.IntRange(0, len(r.Params)-1).Draw(t, "repeatidx")]
				if p.Name == "sort" || p.Name == "include" {
					r.Params = append(r.Params, p)
				}
			}
		case "unknown":
			r.Params = append(r.Params, QParam{rapid.SampledFrom([]string{"foo", "fields", "fields[]", "page[]", "page", "", "Sort"}).Draw(t, "unkparam"), "x"})
		case "empty-ok":
			// Parameters whose empty value is meaningful and accepted: no
			// filter, no rule, no inclusion, an empty selection.
			name := rapid.SampledFrom([]string{"filter", "sort", "include", "fields[" + resType.Name + "]"}).Draw(t, "emptyok")
			if _, dup := r.First(name); dup || (name == "filter" && hasFilter) {
				continue
			}

			if name == "filter" {
				hasFilter = true
			}

			r.Params = append(r.Params, QParam{name, ""})
		case "empty-value":
			r.Params = append(r.Params, QParam{rapid.SampledFrom([]string{"filter", "sort", "include", "fields[" + resType.Name + "]", "page[size]"}).Draw(t, "emptyparam"), ""})
		case "odd-name":
			r.Params = append(r.Params, QParam{"fields[" + resType.Name, "x"})
		}
	}

	return r
}

var _ = jsonapi.AttrTypeInvalid

package gen

import (
	"fmt"
	"reflect"
	"strings"
	"time"

	"pgregory.net/rapid"
)

// NamedString and NamedStrings are defined types a program could use for IDs.
type (
	NamedString  string
	NamedStrings []string
)

// FieldShape is one exported field of a generated struct type.
type FieldShape struct {
	Name    string
	GoType  reflect.Type
	HasAPI  bool
	API     string
	HasJSON bool
	JSON    string
}

// Tag renders the struct tag.
func (f FieldShape) Tag() reflect.StructTag {
	parts := []string{}
	if f.HasJSON {
		parts = append(parts, fmt.Sprintf(`json:"%s"`, f.JSON))
	}

	if f.HasAPI {
		parts = append(parts, fmt.Sprintf(`api:"%s"`, f.API))
	}

	return reflect.StructTag(strings.Join(parts, " "))
}

// Shape is a struct shape a user program could declare.
type Shape struct {
	Fields []FieldShape
	// EmbedID: the ID field is declared in a struct embedded in the shape
	// (struct{ Base; ... } with Base struct{ ID string `...` }).
	EmbedID bool
	// EmbedExtra: the struct also embeds a struct that declares a tagged
	// attribute of its own (promoted to the outer struct by Go, but not a
	// field the outer struct declares).
	EmbedExtra bool
}

func (s Shape) String() string {
	parts := make([]string, len(s.Fields))
	for i, f := range s.Fields {
		parts[i] = fmt.Sprintf("%s %v `%s`", f.Name, f.GoType, f.Tag())
	}

	if s.EmbedExtra {
		parts = append(parts, "Extra (embedded, holds Promoted string `json:\"promoted\" api:\"attr\"`)")
	}

	if s.EmbedID {
		return "struct{Base (embedded, holds ID); " + strings.Join(parts, "; ") + "}"
	}

	return "struct{" + strings.Join(parts, "; ") + "}"
}

// StructType builds the type with reflect.StructOf.
func (s Shape) StructType() reflect.Type {
	fields := []reflect.StructField{}

	for _, f := range s.Fields {
		sf := reflect.StructField{Name: f.Name, Type: f.GoType, Tag: f.Tag()}

		if s.EmbedID && f.Name == "ID" {
			sf = reflect.StructField{Name: "Base", Anonymous: true, Type: reflect.StructOf([]reflect.StructField{sf})}
		}

		fields = append(fields, sf)
	}

	if s.EmbedExtra {
		fields = append(fields, reflect.StructField{Name: "Extra", Anonymous: true, Type: reflect.StructOf([]reflect.StructField{
			{Name: "Promoted", Type: reflect.TypeOf(""), Tag: `json:"promoted" api:"attr"`},
		})})
	}

	return reflect.StructOf(fields)
}

// ShapeFieldTypes lists the Go field types the shape generator draws from:
// every supported attribute and relationship type and some unsupported ones.
func ShapeFieldTypes() []reflect.Type {
	ts := []reflect.Type{}

	for _, k := range Kinds {
		ts = append(ts, GoTypeOf(k, false), GoTypeOf(k, true))
	}

	str := ""
	pstr := &str

	// Defined types whose underlying type is a relationship's: not string
	// and not []string.
	ts = append(ts, reflect.TypeOf(NamedString("")), reflect.TypeOf([]NamedString{}), reflect.TypeOf(NamedStrings{}))

	// Interface types: what such a field holds is not its type.
	ts = append(ts, reflect.TypeOf((*any)(nil)).Elem(), reflect.TypeOf((*error)(nil)).Elem(), reflect.TypeOf((*fmt.Stringer)(nil)).Elem())

	ts = append(ts,
		reflect.TypeOf([]string{}), // to-many
		reflect.TypeOf(float64(0)), reflect.TypeOf([]int{}), reflect.TypeOf(map[string]string{}), reflect.TypeOf(struct{ X int }{}),
		reflect.TypeOf(&pstr), reflect.TypeOf(&[]string{}), reflect.TypeOf(time.Duration(0)), reflect.TypeOf([]*string{}),
	)

	return ts
}

// StructShape draws a struct shape: 0..8 fields besides a possible ID field,
// in random order, with the tag forms listed in C20.
func StructShape(t *rapid.T) Shape {
	s := Shape{}
	types := ShapeFieldTypes()
	jsonPool := []string{"a", "b", "c", "a-b", "id", "", "A", "B", "a_b", "Id", "F1", "f1"}

	// ID field.
	idForm := rapid.SampledFrom([]string{
		"ok", "ok", "ok", "ok", "ok", "absent", "json-other", "json-absent", "api-empty", "api-absent", "int", "bytes", "ptr-string", "lowercase", "named-string",
	}).Draw(t, "idform")

	id := FieldShape{Name: "ID", GoType: reflect.TypeOf(""), HasAPI: true, API: rapid.SampledFrom([]string{"t", "types", "a-b"}).Draw(t, "typename"), HasJSON: true, JSON: "id"}

	switch idForm {
	case "json-other":
		id.JSON = rapid.SampledFrom([]string{"ident", "a", "b", "c", "a-b", ""}).Draw(t, "idjson")
	case "json-absent":
		id.HasJSON = false
	case "api-empty":
		id.API = ""
	case "api-absent":
		id.HasAPI = false
	case "int":
		id.GoType = reflect.TypeOf(int(0))
	case "bytes":
		id.GoType = reflect.TypeOf([]byte{})
	case "named-string":
		id.GoType = reflect.TypeOf(NamedString(""))
	case "ptr-string":
		id.GoType = reflect.PointerTo(reflect.TypeOf(""))
	case "lowercase":
		id.Name = "Id"
	}

	if idForm != "absent" {
		s.Fields = append(s.Fields, id)
	}

	n := rapid.IntRange(0, 8).Draw(t, "nfields")
	many := idForm == "ok" && rapid.IntRange(0, 1499).Draw(t, "manyfields") == 0

	if many {
		// more fields than a machine word has bits, all of them proper
		// attributes and relationships (so that the struct has a chance to
		// be accepted)
		n = rapid.IntRange(65, 68).Draw(t, "nfields-many")
	}
	for i := 0; i < n; i++ {
		f := FieldShape{Name: fmt.Sprintf("F%d", i)}

		mode := rapid.IntRange(0, 9).Draw(t, "fieldmode")
		if many {
			mode = mode % 6
		}
		switch {
		case mode <= 3: // a proper attribute
			k := rapid.SampledFrom(Kinds).Draw(t, "kind")
			f.GoType = GoTypeOf(k, rapid.Bool().Draw(t, "nullable"))
			f.HasAPI, f.API = true, "attr"
		case mode <= 5: // a proper relationship
			if rapid.Bool().Draw(t, "toMany") {
				f.GoType = reflect.TypeOf([]string{})
			} else {
				f.GoType = reflect.TypeOf("")
			}

			f.HasAPI = true
			f.API = rapid.SampledFrom([]string{"rel,t", "rel,other", "rel,t,inv", "rel,t,a", "rel,t,", "rel,,inv", "rel,,"}).Draw(t, "reltag")
		case mode == 6 && rapid.Bool().Draw(t, "namedrel"): // a relationship tag on a defined string-like type
			f.GoType = rapid.SampledFrom([]reflect.Type{reflect.TypeOf(NamedString("")), reflect.TypeOf([]NamedString{}), reflect.TypeOf(NamedStrings{})}).Draw(t, "namedtype")
			f.HasAPI = true
			f.API = rapid.SampledFrom([]string{"rel,t", "rel,t,inv"}).Draw(t, "namedreltag")
		default: // anything
			f.GoType = rapid.SampledFrom(types).Draw(t, "gotype")
			f.HasAPI = rapid.IntRange(0, 4).Draw(t, "hasapi") > 0
			f.API = rapid.SampledFrom([]string{"attr", "attr", "rel", "rel,", "rel,t", "rel,t,inv", "rel,,inv", "rel,a,b,c", "foo", "", "attr,x", "relation,t"}).Draw(t, "apitag")
		}

		f.HasJSON = many || rapid.IntRange(0, 9).Draw(t, "hasjson") > 0
		f.JSON = fmt.Sprintf("f%d", i)

		if !many && rapid.IntRange(0, 3).Draw(t, "jsonodd") == 0 {
			f.JSON = rapid.SampledFrom(jsonPool).Draw(t, "jsonname")
		}

		s.Fields = append(s.Fields, f)
	}

	if len(s.Fields) > 1 {
		s.Fields = rapid.Permutation(s.Fields).Draw(t, "order")
	}

	s.EmbedExtra = rapid.IntRange(0, 9).Draw(t, "embedextra") == 0

	// A well-formed ID may also come from an embedded struct.
	if idForm == "ok" && rapid.IntRange(0, 5).Draw(t, "embedid") == 0 {
		s.EmbedID = true
	}

	return s
}

package gen

import (
	"encoding/json"
	"fmt"
	"strconv"
	"strings"

	"github.com/mfcochauxlaberge/jsonapi"
	"pgregory.net/rapid"
)

// RelForm is the relationship object of a generated resource payload.
type RelForm struct {
	Rel     jsonapi.Rel
	Form    string   // data-null, data-one, data-many, links-only, meta-only, ill-shaped
	HasData bool     // the object carries a "data" member
	IDs     []string // the IDs the data member lists, in order
	Text    string   // JSON text of the relationship object
}

// PayloadCase is a generated resource payload and its meaning.
type PayloadCase struct {
	TS       *TypeSpec
	ID       string
	TypeName string
	Attrs    map[string]Lit
	Rels     map[string]RelForm
	Unknown  string // name of an injected unknown field ("" if none)
	HasAttrs bool   // the payload has an "attributes" member
	HasRels  bool
	ResMeta  string // JSON text of the resource-level meta object ("" if the payload has none)
	Text     string
}

func (p *PayloadCase) String() string {
	return fmt.Sprintf("%s payload=%s", p.TS, p.Text)
}

// QuoteJSON renders a Go string as a (minimal) JSON string literal.
func QuoteJSON(s string) string {
	var b strings.Builder

	b.WriteByte('"')

	for _, r := range s {
		switch {
		case r == '"':
			b.WriteString(`\"`)
		case r == '\\':
			b.WriteString(`\\`)
		case r < 0x20:
			fmt.Fprintf(&b, `\u%04x`, r)
		default:
			b.WriteRune(r)
		}
	}

	b.WriteByte('"')

	return b.String()
}

func identJSON(typ, id string) string {
	return fmt.Sprintf(`{"type":%s,"id":%s}`, QuoteJSON(typ), QuoteJSON(id))
}

// PayloadOpts tunes ResourcePayload.
type PayloadOpts struct {
	IllPerTen      int // chance (in tenths) that an attribute literal is ill-typed
	UnknownPerTen  int // chance that an unknown field is injected
	IllRelPerTen   int // chance that a relationship's data has the wrong shape
	AllFieldsOften bool
	Canonical      bool     // attribute literals are what encoding/json writes for a generated value
	OddIdentPerTen int      // chance that an identifier of a linkage names another type than the target, or none
	ForeignTypes   []string // names of known types that an identifier may bear instead of the target's
	ForeignPerTen  int      // chance of that, per identifier
}

// ResourcePayload draws the JSON text of a resource object for the type, with
// any subset of its attributes and relationships present.
func ResourcePayload(t *rapid.T, ts *TypeSpec, o PayloadOpts) *PayloadCase {
	p := &PayloadCase{TS: ts, TypeName: ts.Name, Attrs: map[string]Lit{}, Rels: map[string]RelForm{}}
	p.ID = IDString(t, "pid", true)

	all := o.AllFieldsOften && rapid.Bool().Draw(t, "allfields")

	// The chance of an ill-typed value is per field; a payload for a type
	// with dozens of fields would practically never be acceptable. Two such
	// payloads in three have well-typed values only.
	// (free literals - other spellings, values at and beyond the ends of the
	// ranges - for two of the attributes at most, canonical ones for the rest)
	freeLit := -1

	if len(ts.Attrs)+len(ts.Rels) > 12 && !o.Canonical && rapid.IntRange(0, 2).Draw(t, "wide-welltyped") > 0 {
		o.IllPerTen, o.IllRelPerTen, o.OddIdentPerTen = 0, 0, 0
		freeLit = rapid.IntRange(0, len(ts.Attrs)).Draw(t, "wide-freelit")
	}

	// The identifiers of a linkage name the relationship's target type; now
	// and then one names something else, or nothing (the statement of no
	// property says what must happen then, only that the entry points agree).
	identJSON := func(typ, id string) string {
		if len(o.ForeignTypes) > 0 && rapid.IntRange(0, 9).Draw(t, "foreignident") < o.ForeignPerTen {
			return identJSON(rapid.SampledFrom(o.ForeignTypes).Draw(t, "foreignident-type"), id)
		}

		if o.OddIdentPerTen == 0 || rapid.IntRange(0, 9).Draw(t, "oddident") >= o.OddIdentPerTen {
			return identJSON(typ, id)
		}

		switch rapid.IntRange(0, 3).Draw(t, "oddident-kind") {
		case 0:
			return fmt.Sprintf(`{"id":%s}`, QuoteJSON(id))
		case 1:
			return identJSON("nope", id)
		case 2:
			return fmt.Sprintf(`{"type":7,"id":%s}`, QuoteJSON(id))
		}

		return identJSON(ts.Name+"x", id)
	}

	attrParts := []string{}

	for ai, a := range ts.Attrs {
		if !all && !rapid.Bool().Draw(t, "has-"+a.Name) {
			continue
		}

		var l Lit

		if freeLit >= 0 && ai != freeLit && ai != freeLit+7 {
			l = PlainLit(t, a, "lit-"+a.Name)
		} else if o.Canonical {
			v := Value(t, a, "val-"+a.Name)
			b, err := json.Marshal(v)

			if err != nil {
				panic(err)
			}

			l = Lit{Text: string(b), Spelling: "canonical", Canonical: true}
		} else {
			l = AnyLit(t, a, "lit-"+a.Name, o.IllPerTen)
		}
		p.Attrs[a.Name] = l
		attrParts = append(attrParts, QuoteJSON(a.Name)+":"+l.Text)
	}

	relParts := []string{}

	for _, r := range ts.Rels {
		if !all && !rapid.Bool().Draw(t, "has-"+r.FromName) {
			continue
		}

		f := RelForm{Rel: r}
		mode := rapid.IntRange(0, 9).Draw(t, "relform-"+r.FromName)

		switch {
		case mode == 0:
			// (links and meta may be empty objects, null, or not there at all;
			// so may the relationship object itself: a null member)
			f.Form = "links-only"
			f.Text = rapid.SampledFrom([]string{`{"links":{"self":"/x","related":"/y"}}`, `{"links":{"self":"/x","related":"/y"}}`, `{"links":{}}`, `{"links":null}`, `{}`, `null`}).Draw(t, "linksonly-"+r.FromName)
		case mode == 1:
			f.Form = "meta-only"
			f.Text = rapid.SampledFrom([]string{`{"meta":{"data":1}}`, `{"meta":{"data":1}}`, `{"meta":{}}`, `{"meta":null,"links":{}}`}).Draw(t, "metaonly-"+r.FromName)
		case mode == 2:
			f.Form, f.HasData = "data-null", true
			f.Text = `{"data":null}`
		case mode == 4 && o.IllRelPerTen > 0 && rapid.IntRange(0, 9).Draw(t, "illmember") < o.IllRelPerTen:
			// Well-formed linkage next to a links / meta member of the
			// wrong JSON kind (members the library does not use).
			f.Form, f.HasData = "ill-member", true
			f.IDs = []string{}
			data := "[]"

			if r.ToOne {
				f.IDs = []string{"a"}
				data = identJSON(r.ToType, "a")
			}

			f.Text = `{"data":` + data + "," + rapid.SampledFrom([]string{`"links":"/x"`, `"links":[1]`, `"meta":"draft"`, `"meta":3`, `"links":null,"meta":false`}).Draw(t, "illmember-form") + "}"
		case mode == 3 && o.IllRelPerTen > 0 && rapid.IntRange(0, 9).Draw(t, "illrel") < o.IllRelPerTen:
			f.Form, f.HasData = "ill-shaped", true

			if r.ToOne {
				f.IDs = []string{"a", "b"}
				f.Text = `{"data":[` + identJSON(r.ToType, "a") + "," + identJSON(r.ToType, "b") + `]}`
			} else {
				f.IDs = []string{"a"}
				f.Text = `{"data":` + identJSON(r.ToType, "a") + `}`
			}
		case r.ToOne:
			f.Form, f.HasData = "data-one", true
			id := IDString(t, "relid-"+r.FromName, false)
			f.IDs = []string{id}
			f.Text = `{"data":` + identJSON(r.ToType, id)

			if rapid.Bool().Draw(t, "rellinks") {
				f.Text += `,"links":{"self":"/s"}`
			}

			f.Text += "}"
		default:
			f.Form, f.HasData = "data-many", true
			n := rapid.IntRange(0, 4).Draw(t, "nids-"+r.FromName)
			items := []string{}
			f.IDs = []string{}

			for i := 0; i < n; i++ {
				id := IDString(t, "relid-"+r.FromName, false)
				if i > 0 && rapid.IntRange(0, 3).Draw(t, "repeat") == 0 {
					id = f.IDs[0]
				}

				// An element may carry the empty ID, or no id member at all.
				if !o.Canonical && rapid.IntRange(0, 9).Draw(t, "emptyid") == 0 {
					f.IDs = append(f.IDs, "")

					if rapid.Bool().Draw(t, "noidmember") {
						items = append(items, `{"type":`+QuoteJSON(r.ToType)+`}`)
					} else {
						items = append(items, identJSON(r.ToType, ""))
					}

					continue
				}

				f.IDs = append(f.IDs, id)
				items = append(items, identJSON(r.ToType, id))
			}

			f.Text = `{"data":[` + strings.Join(items, ",") + `]}`
		}

		p.Rels[r.FromName] = f
		relParts = append(relParts, QuoteJSON(r.FromName)+":"+f.Text)
	}

	if o.UnknownPerTen > 0 && rapid.IntRange(0, 9).Draw(t, "unknown") < o.UnknownPerTen {
		p.Unknown = "nope"

		// A name the type does not have, or a name it has under the other
		// member: a relationship among the attributes, an attribute among the
		// relationships (whether or not it also appears where it belongs).
		relForm := func() string {
			return rapid.SampledFrom([]string{`{"data":null}`, `{"links":{"self":"/x"}}`, `{"meta":{}}`, `{}`, `{"data":[]}`}).Draw(t, "unknown-rel-form")
		}

		switch kind := rapid.IntRange(0, 3).Draw(t, "unknown-kind"); {
		case kind == 0 && len(ts.Rels) > 0:
			p.Unknown = ts.Rels[rapid.IntRange(0, len(ts.Rels)-1).Draw(t, "misplaced-rel")].FromName
			attrParts = append(attrParts, QuoteJSON(p.Unknown)+":"+rapid.SampledFrom([]string{"1", `"x"`, "null", `{"data":null}`}).Draw(t, "misplaced-rel-value"))
		case kind == 1 && len(ts.Attrs) > 0:
			p.Unknown = ts.Attrs[rapid.IntRange(0, len(ts.Attrs)-1).Draw(t, "misplaced-attr")].Name
			relParts = append(relParts, QuoteJSON(p.Unknown)+":"+relForm())
		case rapid.Bool().Draw(t, "unknown-attr"):
			attrParts = append(attrParts, `"nope":1`)
		default:
			relParts = append(relParts, `"nope":`+relForm())
		}
	}

	if len(attrParts) > 1 {
		attrParts = rapid.Permutation(attrParts).Draw(t, "attrorder")
	}

	if len(relParts) > 1 {
		relParts = rapid.Permutation(relParts).Draw(t, "relorder")
	}

	members := []string{`"id":` + QuoteJSON(p.ID), `"type":` + QuoteJSON(p.TypeName)}

	// A type the schema does not have, or no type member at all (with or
	// without fields): never acceptable.
	if o.UnknownPerTen > 0 && rapid.IntRange(0, 19).Draw(t, "badtype") == 0 {
		switch rapid.IntRange(0, 2).Draw(t, "badtype-form") {
		case 0:
			p.TypeName = "zz-no-such-type"
			members[1] = `"type":"zz-no-such-type"`
		case 1:
			p.TypeName = ""
			members = members[:1]
		default:
			p.TypeName = ""
			members[1] = `"type":""`
		}

		if rapid.Bool().Draw(t, "badtype-nofields") {
			attrParts, relParts = nil, nil
			p.Attrs, p.Rels = map[string]Lit{}, map[string]RelForm{}
		}
	}

	if len(attrParts) > 0 || rapid.Bool().Draw(t, "emptyattrs") {
		p.HasAttrs = true
		members = append(members, `"attributes":{`+strings.Join(attrParts, ",")+`}`)
	}

	if len(relParts) > 0 || rapid.Bool().Draw(t, "emptyrels") {
		p.HasRels = true
		members = append(members, `"relationships":{`+strings.Join(relParts, ",")+`}`)
	}

	if o.IllPerTen > 0 && rapid.IntRange(0, 19).Draw(t, "illresmeta") == 0 {
		// a resource-level meta / links member of the wrong JSON kind
		members = append(members, rapid.SampledFrom([]string{`"meta":"draft"`, `"meta":[1]`, `"meta":3`, `"links":"x"`, `"links":[]`}).Draw(t, "illresmeta-form"))
	} else if rapid.IntRange(0, 4).Draw(t, "resmeta") == 0 {
		p.ResMeta = `{"k` + strconv.Itoa(rapid.IntRange(0, 3).Draw(t, "metakey")) + `":` + strconv.Itoa(rapid.IntRange(0, 9).Draw(t, "metaval")) + `}`
		members = append(members, `"meta":`+p.ResMeta)
	}

	if rapid.IntRange(0, 4).Draw(t, "reslinks") == 0 {
		members = append(members, `"links":{"self":"/z"}`)
	}

	members = rapid.Permutation(members).Draw(t, "memberorder")
	p.Text = "{" + strings.Join(members, ",") + "}"

	return p
}

package gen

import (
	"fmt"
	"net/url"
	"reflect"
	"sort"
	"strings"
	"time"

	"github.com/mfcochauxlaberge/jsonapi"
	"pgregory.net/rapid"
)

// TypeSpec is the harness' own description of a type; the library's Type value
// is derived from it (directly for soft types, through reflect.StructOf and
// BuildType for struct-backed ones).
type TypeSpec struct {
	Name   string
	Attrs  []jsonapi.Attr // sorted by name
	Rels   []jsonapi.Rel  // sorted by FromName, FromType == Name
	Struct bool
	GoType reflect.Type // struct type when Struct

	// Soft types only: leave the Attrs / Rels map nil when it has no entry (a
	// Type literal with only a name, as in the library's own tests).
	NilMaps bool
	// Soft types only: map key under which a relationship is stored when it is
	// not its FromName (a hand-written Type literal; C15 quantifies over those).
	RelKeys map[string]string
	// Soft types only: the Type value is derived from another one that was
	// already in use (base.New(), base.Copy(), rename, add a field).
	Derived bool
	// Struct-backed types only: where the ID field is declared among the
	// other fields (0 = first, as in the library's own examples; larger
	// values wrap around).
	IDPos int
	// Struct-backed types only: the ID field is promoted from an embedded
	// struct (struct{ Base; ... }, Base struct{ ID string `...` }).
	EmbedID bool
	// Struct-backed types only: the ID field has a defined string type
	// (type Key string) instead of string.
	NamedID bool
	// Struct-backed types only: the struct embeds, by value, another struct
	// whose fields carry api tags. Only direct fields declare attributes and
	// relationships (Check, BuildType and Wrap all agree on that), so the
	// promoted ones must be ignored everywhere.
	EmbedExtra bool
	// Struct-backed types only: a field without api tag has the json name of
	// the first attribute (the library goes by api tags only).
	Shadow bool
	// Struct-backed types only: the schema holds exactly what BuildType
	// returns (a struct tag cannot express FromOne: it is false everywhere);
	// Rels is updated to say the same once the schema is built.
	RawRels bool
}

// SchemaSpec is a generated schema together with its description.
type SchemaSpec struct {
	Types  []TypeSpec
	Schema *jsonapi.Schema
}

// Type returns the spec of the named type.
func (s *SchemaSpec) Type(name string) *TypeSpec {
	for i := range s.Types {
		if s.Types[i].Name == name {
			return &s.Types[i]
		}
	}

	return nil
}

// Attr returns the named attribute.
func (ts *TypeSpec) Attr(name string) (jsonapi.Attr, bool) {
	for _, a := range ts.Attrs {
		if a.Name == name {
			return a, true
		}
	}

	return jsonapi.Attr{}, false
}

// Rel returns the named relationship.
func (ts *TypeSpec) Rel(name string) (jsonapi.Rel, bool) {
	for _, r := range ts.Rels {
		if r.FromName == name {
			return r, true
		}
	}

	return jsonapi.Rel{}, false
}

// Fields returns attribute and relationship names, sorted.
func (ts *TypeSpec) Fields() []string {
	fs := []string{}
	for _, a := range ts.Attrs {
		fs = append(fs, a.Name)
	}

	for _, r := range ts.Rels {
		fs = append(fs, r.FromName)
	}

	sort.Strings(fs)

	return fs
}

func (ts TypeSpec) String() string {
	var b strings.Builder

	impl := "soft"
	if ts.Struct {
		impl = "struct"
		if ts.EmbedID {
			impl = "struct,embedded-id"
		}

		if ts.NamedID {
			impl += ",named-id"
		}

		if ts.EmbedExtra {
			impl += ",embedded-extra"
		}

		if ts.Shadow {
			impl += ",shadow"
		}
	} else if ts.Derived {
		impl = "soft,derived"
	}

	fmt.Fprintf(&b, "%s(%s){", ts.Name, impl)

	for _, a := range ts.Attrs {
		fmt.Fprintf(&b, "%s:%s ", a.Name, KindName(a.Type, a.Nullable))
	}

	for _, r := range ts.Rels {
		fmt.Fprintf(&b, "%s", RelString(r))
		b.WriteString(" ")
	}

	b.WriteString("}")

	return b.String()
}

// RelString renders a relationship for descriptions.
func RelString(r jsonapi.Rel) string {
	c := func(one bool) string {
		if one {
			return "1"
		}

		return "N"
	}

	return fmt.Sprintf("%s.%s->%s%s.%s(from%s)", r.FromType, r.FromName, c(r.ToOne), r.ToType, r.ToName, c(r.FromOne))
}

func (s SchemaSpec) String() string {
	parts := make([]string, len(s.Types))
	for i := range s.Types {
		parts[i] = s.Types[i].String()
	}

	return "schema[" + strings.Join(parts, "; ") + "]"
}

// GoTypeOf returns the Go type of an attribute kind (the harness' own table).
func GoTypeOf(kind int, nullable bool) reflect.Type {
	var rt reflect.Type

	switch kind {
	case jsonapi.AttrTypeString:
		rt = reflect.TypeOf("")
	case jsonapi.AttrTypeInt:
		rt = reflect.TypeOf(int(0))
	case jsonapi.AttrTypeInt8:
		rt = reflect.TypeOf(int8(0))
	case jsonapi.AttrTypeInt16:
		rt = reflect.TypeOf(int16(0))
	case jsonapi.AttrTypeInt32:
		rt = reflect.TypeOf(int32(0))
	case jsonapi.AttrTypeInt64:
		rt = reflect.TypeOf(int64(0))
	case jsonapi.AttrTypeUint:
		rt = reflect.TypeOf(uint(0))
	case jsonapi.AttrTypeUint8:
		rt = reflect.TypeOf(uint8(0))
	case jsonapi.AttrTypeUint16:
		rt = reflect.TypeOf(uint16(0))
	case jsonapi.AttrTypeUint32:
		rt = reflect.TypeOf(uint32(0))
	case jsonapi.AttrTypeUint64:
		rt = reflect.TypeOf(uint64(0))
	case jsonapi.AttrTypeBool:
		rt = reflect.TypeOf(false)
	case jsonapi.AttrTypeTime:
		rt = reflect.TypeOf(time.Time{})
	case jsonapi.AttrTypeBytes:
		rt = reflect.TypeOf([]byte{})
	default:
		panic(fmt.Sprintf("gen: invalid kind %d", kind))
	}

	if nullable {
		return reflect.PointerTo(rt)
	}

	return rt
}

// StructTypeOf builds, with reflect.StructOf, the struct type that declares the
// given type in the library's tag language.
func StructTypeOf(ts *TypeSpec) reflect.Type {
	idField := reflect.StructField{
		Name: "ID",
		Type: reflect.TypeOf(""),
		Tag:  reflect.StructTag(fmt.Sprintf(`json:"id" api:"%s"`, ts.Name)),
	}
	fields := []reflect.StructField{}

	for i, a := range ts.Attrs {
		fields = append(fields, reflect.StructField{
			Name: fmt.Sprintf("A%d", i),
			Type: GoTypeOf(a.Type, a.Nullable),
			Tag:  reflect.StructTag(fmt.Sprintf(`json:"%s" api:"attr"`, a.Name)),
		})
	}

	for i, r := range ts.Rels {
		tag := "rel," + r.ToType
		if r.ToName != "" {
			tag += "," + r.ToName
		}

		ft := reflect.TypeOf("")
		if !r.ToOne {
			ft = reflect.TypeOf([]string{})
		}

		fields = append(fields, reflect.StructField{
			Name: fmt.Sprintf("R%d", i),
			Type: ft,
			Tag:  reflect.StructTag(fmt.Sprintf(`json:"%s" api:"%s"`, r.FromName, tag)),
		})
	}

	// The ID field may be declared anywhere.
	pos := 0
	if ts.IDPos > 0 {
		pos = ts.IDPos % (len(fields) + 1)
	}

	if ts.NamedID {
		idField.Type = reflect.TypeOf(NamedString(""))
	}

	if ts.EmbedID {
		idField = reflect.StructField{Name: "Base", Anonymous: true, Type: reflect.StructOf([]reflect.StructField{idField})}
	}

	fields = append(fields[:pos:pos], append([]reflect.StructField{idField}, fields[pos:]...)...)

	if ts.EmbedExtra {
		extra := reflect.StructOf([]reflect.StructField{
			{Name: "Hidden", Type: reflect.TypeOf(""), Tag: `json:"zz-hidden" api:"attr"`},
			{Name: "HiddenRel", Type: reflect.TypeOf([]string{}), Tag: reflect.StructTag(fmt.Sprintf(`json:"zz-hiddenrel" api:"rel,%s"`, ts.Name))},
		})
		fields = append(fields, reflect.StructField{Name: "Extra", Anonymous: true, Type: extra})
	}

	if ts.Shadow && len(ts.Attrs) > 0 {
		fields = append(fields, reflect.StructField{
			Name: "Shadow",
			Type: reflect.TypeOf(""),
			Tag:  reflect.StructTag(fmt.Sprintf(`json:"%s"`, ts.Attrs[0].Name)),
		})
	}

	return reflect.StructOf(fields)
}

// SoftTypeOf builds the library Type value of a spec directly.
func SoftTypeOf(ts *TypeSpec) jsonapi.Type {
	typ := jsonapi.Type{Name: ts.Name}

	if !ts.NilMaps || len(ts.Attrs) > 0 {
		typ.Attrs = map[string]jsonapi.Attr{}
	}

	if !ts.NilMaps || len(ts.Rels) > 0 {
		typ.Rels = map[string]jsonapi.Rel{}
	}

	for _, a := range ts.Attrs {
		typ.Attrs[a.Name] = a
	}

	for _, r := range ts.Rels {
		key := r.FromName
		if k, ok := ts.RelKeys[r.FromName]; ok {
			key = k
		}

		typ.Rels[key] = r
	}

	if ts.Derived {
		base := typ.Copy()
		base.Name = ts.Name + "-base"

		var last *jsonapi.Attr
		if n := len(ts.Attrs); n > 0 {
			last = &ts.Attrs[n-1]
			delete(base.Attrs, last.Name)
		}

		_ = base.New()

		typ = base.Copy()
		typ.Name = ts.Name

		if last != nil {
			typ.Attrs[last.Name] = *last
		}
	}

	return typ
}

// BuildSchema turns type specs into a library schema. Struct-backed types go
// through BuildType; the FromOne side of their relationships (which tags cannot
// express) is then completed from the spec, as the library's own tests do.
func BuildSchema(specs []TypeSpec) *SchemaSpec {
	return BuildSchemaWithScaffold(specs, -1)
}

// scaffoldType is a type that only exists while a schema is being built.
const scaffoldType = "zz--scaffold"

// BuildSchemaWithScaffold builds the schema like BuildSchema; with at >= 0 a
// throw-away type is added before the type at that index (after the last one
// when at == len(specs)) and removed again once all types are in: the result
// is the same schema, reached through a longer history of edits.
func BuildSchemaWithScaffold(specs []TypeSpec, at int) *SchemaSpec {
	return BuildSchemaWithHistory(specs, at, -1, false)
}

// BuildSchemaWithHistory is BuildSchemaWithScaffold followed, when
// readdFrom >= 0, by a few lookups and by taking out and putting back every
// type from that index on, in order: the schema ends up with the same types
// in the same order.
func BuildSchemaWithHistory(specs []TypeSpec, at, readdFrom int, useBefore bool) *SchemaSpec {
	ss := buildSchemaWithScaffold(specs, at)

	if readdFrom < 0 || readdFrom >= len(specs) {
		return ss
	}

	// The schema is used after the first type was moved - when the order of
	// the types is not the final one - and, if useBefore, also before
	// anything moves (whatever a use builds is then there); nothing happens
	// in between the other edits.
	if useBefore {
		useSchema(ss.Schema)
	}

	for k := readdFrom; k < len(specs); k++ {
		// The next type to move is at index readdFrom: those moved before it
		// went to the end.
		typ := ss.Schema.Types[readdFrom]

		ss.Schema.RemoveType(typ.Name)

		if err := ss.Schema.AddType(typ); err != nil {
			panic(fmt.Sprintf("gen: AddType (again): %v", err))
		}

		if k == readdFrom {
			useSchema(ss.Schema)
		}
	}

	for i := range specs {
		if ss.Schema.Types[i].Name != specs[i].Name {
			panic(fmt.Sprintf("gen: type %d is %q after the history, want %q", i, ss.Schema.Types[i].Name, specs[i].Name))
		}
	}

	return ss
}

// nearMiss returns a variant of name that is not in names (another letter
// case, a trailing space, a prefix), or "" for form 0 or when the variant is a
// name.
func nearMiss(_ string, names []string, name string, form int) string {
	v := ""

	switch form {
	case 1:
		v = strings.ToUpper(name)
		if v == name {
			v = strings.ToLower(name)
		}
	case 2:
		v = name + " "
	case 3:
		v = strings.Title(name) //nolint:staticcheck // ASCII first letter is all that matters here
	}

	if v == "" || v == name {
		return ""
	}

	for _, n := range names {
		if n == v {
			return ""
		}
	}

	return v
}

// useSchema runs the read-only operations a request handler runs against a
// schema: lookups, integrity check, relationship listing, parsing a URL,
// unmarshaling a (minimal) resource fully and partially. Results are dropped.
func useSchema(schema *jsonapi.Schema) {
	schema.HasType("zz--nothing")
	schema.Check()
	schema.Rels()

	for i := range schema.Types {
		name := schema.Types[i].Name
		schema.HasType(name)
		schema.GetType(name)

		payload := []byte(`{"id":"warm","type":` + QuoteJSON(name) + `}`)

		_, _ = jsonapi.UnmarshalResource(payload, schema)
		_, _ = jsonapi.UnmarshalPartialResource(payload, schema)
		_, _ = jsonapi.NewURLFromRaw(schema, "/"+url.PathEscape(name))
	}
}

func buildSchemaWithScaffold(specs []TypeSpec, at int) *SchemaSpec {
	ss := &SchemaSpec{Types: specs, Schema: &jsonapi.Schema{}}

	scaffold := func() {
		err := ss.Schema.AddType(jsonapi.Type{Name: scaffoldType, Attrs: map[string]jsonapi.Attr{"x": {Name: "x", Type: jsonapi.AttrTypeInt, Nullable: true}}})
		if err != nil {
			panic(fmt.Sprintf("gen: AddType(scaffold): %v", err))
		}
	}

	defer func() {
		if at >= 0 {
			ss.Schema.RemoveType(scaffoldType)
		}
	}()

	if at >= len(specs) {
		defer scaffold()
	}

	for i := range ss.Types {
		ts := &ss.Types[i]

		if i == at {
			scaffold()
		}

		var typ jsonapi.Type

		if ts.Struct {
			ts.GoType = StructTypeOf(ts)

			var err error

			typ, err = jsonapi.BuildType(reflect.New(ts.GoType).Interface())
			if err != nil {
				panic(fmt.Sprintf("gen: BuildType rejected a well-formed struct %v: %v", ts, err))
			}

			for k, r := range ts.Rels {
				if ts.RawRels {
					ts.Rels[k] = typ.Rels[r.FromName]
					continue
				}

				typ.Rels[r.FromName] = r
			}
		} else {
			typ = SoftTypeOf(ts)
		}

		if err := ss.Schema.AddType(typ); err != nil {
			panic(fmt.Sprintf("gen: AddType: %v", err))
		}
	}

	return ss
}

// SchemaOpts tunes the coherent-schema generator.
type SchemaOpts struct {
	MinTypes, MaxTypes int
	MaxAttrs           int
	MaxRelEdges        int
	AllKindsChance     int  // 1 in n types carries all 28 kinds (0 = never)
	NoStruct           bool // soft types only
	NoSoft             bool // struct-backed only
	NoOwnInverse       bool
	AllowTypeField     bool // fields may be named "type" (the library allows it; JSON:API does not)
	JSONTagOptions     bool // some field names carry a json tag option ("a,omitempty"): the library uses the whole tag as the name
	OddFromType        bool // one-way relationships of soft types may leave FromType empty or wrong (AddRel and Check accept that)
	OddCardinality     bool // the two sides of a pair may disagree about cardinality (Check only compares names)
	OddRelKeys         bool // soft types may store a relationship under a map key that is not its name (hand-written literals)
	NoWide             bool // no type with more than 64 fields
	RawStructRels      bool // half of the struct-backed types keep the relationships exactly as BuildType returns them (FromOne never set)
	NoConcatTwins      bool // no relationships named so that type+name concatenations coincide across types
	OneEmptyFromType   bool // at most one one-way relationship of a soft type leaves FromType empty (what Type.AddRel callers often do)
}

// DefaultSchemaOpts is used by most properties.
var DefaultSchemaOpts = SchemaOpts{MinTypes: 1, MaxTypes: 4, MaxAttrs: 6, MaxRelEdges: 6, AllKindsChance: 6}

// AllKindAttrs returns one attribute per kind x nullable, named k<kind>[n].
func AllKindAttrs() []jsonapi.Attr {
	as := []jsonapi.Attr{}

	for _, k := range Kinds {
		as = append(as, jsonapi.Attr{Name: strings.ReplaceAll(KindName(k, false), "*", "") + "0", Type: k})
		as = append(as, jsonapi.Attr{Name: strings.ReplaceAll(KindName(k, false), "*", "") + "0n", Type: k, Nullable: true})
	}

	sort.Slice(as, func(i, j int) bool { return as[i].Name < as[j].Name })

	return as
}

// CoherentSchema draws a schema in which every relationship's target exists,
// two-way pairs reciprocate, FromType is the owner and FromOne mirrors the
// inverse's ToOne.
func CoherentSchema(t *rapid.T, o SchemaOpts) *SchemaSpec {
	n := rapid.IntRange(o.MinTypes, Upto(t, "ntypes", o.MaxTypes)).Draw(t, "ntypes")
	typeNames := NamePool(t, n, "tname")
	fieldPool := NamePool(t, Upto(t, "nfnames", 6), "fname")
	o.MaxAttrs = Upto(t, "maxattrs", o.MaxAttrs)
	o.MaxRelEdges = Upto(t, "maxedges", o.MaxRelEdges)
	if o.AllowTypeField {
		fieldPool = append(fieldPool, "type")
	}

	// Member names are case-sensitive: ID and Id are fields like any other
	// (only id is reserved).
	if rapid.IntRange(0, 7).Draw(t, "idlike") == 0 {
		fieldPool = append(fieldPool, rapid.SampledFrom([]string{"ID", "Id", "iD", "Type"}).Draw(t, "idlike-name"))
	}

	// Names with a json tag option are only used for attributes (a comma in
	// the inverse name of a relationship would change the arity of its api tag).
	attrPool := fieldPool
	if o.JSONTagOptions {
		attrPool = append(append([]string{}, fieldPool...), fieldPool[0]+",omitempty", "opt,string")
	}

	specs := make([]TypeSpec, n)
	used := make([]map[string]bool, n)

	for i := range specs {
		specs[i].Name = typeNames[i]
		used[i] = map[string]bool{}

		switch {
		case o.NoStruct:
		case o.NoSoft:
			specs[i].Struct = true
		default:
			specs[i].Struct = rapid.Bool().Draw(t, "struct")
		}

		specs[i].NilMaps = rapid.Bool().Draw(t, "nilmaps")
		specs[i].Derived = rapid.IntRange(0, 3).Draw(t, "derived") == 0

		if rapid.IntRange(0, 2).Draw(t, "idpos-any") == 0 {
			specs[i].IDPos = rapid.IntRange(1, 9).Draw(t, "idpos")
		}

		specs[i].EmbedID = rapid.IntRange(0, 5).Draw(t, "embedid") == 0
		specs[i].NamedID = rapid.IntRange(0, 7).Draw(t, "namedid") == 0
		specs[i].EmbedExtra = rapid.IntRange(0, 7).Draw(t, "embedextra") == 0
		specs[i].Shadow = rapid.IntRange(0, 7).Draw(t, "shadow") == 0
		specs[i].RawRels = o.RawStructRels && rapid.Bool().Draw(t, "rawrels")

		if o.AllKindsChance > 0 && rapid.IntRange(1, o.AllKindsChance).Draw(t, "allkinds") == 1 {
			specs[i].Attrs = AllKindAttrs()
			for _, a := range specs[i].Attrs {
				used[i][a.Name] = true
			}

			continue
		}

		na := rapid.IntRange(0, o.MaxAttrs).Draw(t, "nattrs")
		for j := 0; j < na; j++ {
			name := rapid.SampledFrom(attrPool).Draw(t, "aname")
			if used[i][name] {
				continue
			}

			used[i][name] = true
			specs[i].Attrs = append(specs[i].Attrs, jsonapi.Attr{
				Name:     name,
				Type:     rapid.SampledFrom(Kinds).Draw(t, "kind"),
				Nullable: rapid.Bool().Draw(t, "nullable"),
			})
		}
	}

	// Now and then one type is wide: more than 64 fields (bit sets, fixed
	// buffers and small-size fast paths end there).
	if !o.NoWide && rapid.IntRange(0, 49).Draw(t, "wide") == 33 {
		i := rapid.IntRange(0, n-1).Draw(t, "wide-type")
		nw := rapid.IntRange(58, 72).Draw(t, "wide-n")

		for j := 0; j < nw; j++ {
			name := fmt.Sprintf("%s%02d", rapid.SampledFrom([]string{"w", "w", "a", "z", "a-rather-long-member-name-"}).Draw(t, "wide-prefix"), j)
			if used[i][name] {
				continue
			}

			used[i][name] = true
			specs[i].Attrs = append(specs[i].Attrs, jsonapi.Attr{
				Name:     name,
				Type:     rapid.SampledFrom(Kinds).Draw(t, "wide-kind"),
				Nullable: rapid.Bool().Draw(t, "wide-nullable"),
			})
		}
	}

	// ... or many relationships (more than 32).
	if !o.NoWide && rapid.IntRange(0, 59).Draw(t, "widerels") == 41 {
		i := rapid.IntRange(0, n-1).Draw(t, "widerels-type")
		nw := rapid.IntRange(33, 40).Draw(t, "widerels-n")

		for j := 0; j < nw; j++ {
			name := fmt.Sprintf("v%02d", j)
			if used[i][name] {
				continue
			}

			used[i][name] = true
			specs[i].Rels = append(specs[i].Rels, jsonapi.Rel{
				FromType: specs[i].Name, FromName: name, ToOne: rapid.Bool().Draw(t, "widerels-toOne"),
				ToType: specs[rapid.IntRange(0, n-1).Draw(t, "widerels-to")].Name,
			})
		}
	}

	// Relationship edges.
	relPool := append(NamePool(t, 4, "rname"), fieldPool...)
	emptyFromTypeUsed := false
	ne := rapid.IntRange(0, o.MaxRelEdges).Draw(t, "nedges")

	for e := 0; e < ne; e++ {
		a := rapid.IntRange(0, n-1).Draw(t, "from")
		b := rapid.IntRange(0, n-1).Draw(t, "to")
		x := rapid.SampledFrom(relPool).Draw(t, "x")
		toOne := rapid.Bool().Draw(t, "toOne")

		if used[a][x] {
			continue
		}

		kind := rapid.IntRange(0, 3).Draw(t, "edgekind") // 0 one-way, 1..2 two-way, 3 own inverse
		switch {
		case kind == 0:
			used[a][x] = true
			fromType := specs[a].Name

			if o.OddFromType && !specs[a].Struct && rapid.IntRange(0, 2).Draw(t, "oddFromType") == 0 {
				fromType = rapid.SampledFrom([]string{"", specs[b].Name, "ghost"}).Draw(t, "fromTypeValue")
			}

			if o.OneEmptyFromType && !emptyFromTypeUsed && !specs[a].Struct && rapid.IntRange(0, 1).Draw(t, "emptyFromType") == 0 {
				fromType = ""
				emptyFromTypeUsed = true
			}

			specs[a].Rels = append(specs[a].Rels, jsonapi.Rel{
				FromType: fromType, FromName: x, ToOne: toOne, ToType: specs[b].Name,
				FromOne: rapid.Bool().Draw(t, "fromOne"),
			})
		case kind == 3 && !o.NoOwnInverse:
			// A relationship that is its own inverse (same type, same name).
			used[a][x] = true
			// Check only compares names, so the two cardinalities may differ
			// and the schema is still coherent in C16's sense.
			fromOne := toOne
			if rapid.IntRange(0, 2).Draw(t, "ownInverseUnequal") == 0 {
				fromOne = !toOne
			}

			specs[a].Rels = append(specs[a].Rels, jsonapi.Rel{
				FromType: specs[a].Name, FromName: x, ToOne: toOne, ToType: specs[a].Name, ToName: x, FromOne: fromOne,
			})
		default:
			y := rapid.SampledFrom(relPool).Draw(t, "y")
			fromOne := rapid.Bool().Draw(t, "fromOne")

			if used[b][y] || (a == b && x == y) {
				continue
			}

			used[a][x] = true
			used[b][y] = true
			specs[a].Rels = append(specs[a].Rels, jsonapi.Rel{
				FromType: specs[a].Name, FromName: x, ToOne: toOne, ToType: specs[b].Name, ToName: y, FromOne: fromOne,
			})
			inv := jsonapi.Rel{FromType: specs[b].Name, FromName: y, ToOne: fromOne, ToType: specs[a].Name, ToName: x, FromOne: toOne}

			if o.OddCardinality && rapid.IntRange(0, 3).Draw(t, "oddCardinality") == 0 {
				inv.ToOne = rapid.Bool().Draw(t, "invToOne")
				inv.FromOne = rapid.Bool().Draw(t, "invFromOne")
			}

			specs[b].Rels = append(specs[b].Rels, inv)
		}
	}

	// Concatenation twins: when one type name continues another after a
	// separator (a, a_b), the shorter type may get a one-way relationship
	// x_n and the longer one n, so that "type, separator, name" reads the same
	// for both (C16 names such pairs).
	if o.MaxRelEdges > 0 && !o.NoConcatTwins {
		for i := range specs {
			for j := range specs {
				for _, sep := range []string{"_", "-", ""} {
					x := strings.TrimPrefix(specs[j].Name, specs[i].Name+sep)
					if i == j || x == specs[j].Name || x == "" || rapid.IntRange(0, 1).Draw(t, "concatTwin") != 0 {
						continue
					}

					n := rapid.SampledFrom(relPool).Draw(t, "concatTwinName")
					long := x + sep + n

					if used[i][long] || used[j][n] || reserved[long] {
						continue
					}

					used[i][long], used[j][n] = true, true
					specs[i].Rels = append(specs[i].Rels, jsonapi.Rel{FromType: specs[i].Name, FromName: long, ToType: specs[0].Name, ToOne: rapid.Bool().Draw(t, "concatTwinToOne")})
					specs[j].Rels = append(specs[j].Rels, jsonapi.Rel{FromType: specs[j].Name, FromName: n, ToType: specs[0].Name})
				}
			}
		}
	}

	for i := range specs {
		sort.Slice(specs[i].Attrs, func(a, b int) bool { return specs[i].Attrs[a].Name < specs[i].Attrs[b].Name })
		sort.Slice(specs[i].Rels, func(a, b int) bool { return specs[i].Rels[a].FromName < specs[i].Rels[b].FromName })

		if o.OddRelKeys && !specs[i].Struct && len(specs[i].Rels) > 0 && rapid.IntRange(0, 2).Draw(t, "oddkeys") == 0 {
			specs[i].RelKeys = map[string]string{}
			for _, r := range specs[i].Rels {
				specs[i].RelKeys[r.FromName] = "k-" + r.FromName
			}
		}
	}

	// One schema in four is reached through a longer history: a throw-away
	// type is added somewhere and removed at the end.
	at, readdFrom := -1, -1
	if rapid.IntRange(0, 3).Draw(t, "scaffold") == 0 {
		at = rapid.IntRange(0, len(specs)).Draw(t, "scaffold-at")
	}

	if rapid.IntRange(0, 5).Draw(t, "readd") == 0 {
		readdFrom = rapid.IntRange(0, len(specs)-1).Draw(t, "readd-from")
	}

	return BuildSchemaWithHistory(specs, at, readdFrom, rapid.Bool().Draw(t, "readd-usebefore"))
}

// NewResource creates an empty resource of the type: a *Wrapper around a fresh
// struct for struct-backed types, a *SoftResource on a private copy of the
// type otherwise.
func NewResource(ts *TypeSpec) jsonapi.Resource {
	if ts.Struct {
		return jsonapi.Wrap(reflect.New(ts.GoType).Interface())
	}

	typ := SoftTypeOf(ts)

	return &jsonapi.SoftResource{Type: &typ}
}

// RelIDs draws the value of a relationship: a string (possibly empty) for
// to-one, a non-nil list of 0..maxN IDs for to-many.
func RelIDs(t *rapid.T, r jsonapi.Rel, label string, maxN int, distinct bool) any {
	if r.ToOne {
		return IDString(t, label, true)
	}

	n := rapid.IntRange(0, maxN).Draw(t, label+"-n")

	// Now and then a long list (more IDs than a small fixed buffer holds), in
	// no particular order.
	if rapid.IntRange(0, 39).Draw(t, label+"-long") == 0 {
		ids := make([]string, rapid.SampledFrom([]int{31, 32, 33, 34, 40, 65}).Draw(t, label+"-nlong"))
		for i := range ids {
			ids[i] = fmt.Sprintf("k%02d", (i*7)%len(ids))
		}

		return ids
	}

	ids := make([]string, 0, n)
	seen := map[string]bool{}

	for i := 0; i < n; i++ {
		id := IDString(t, label, false)
		if distinct && seen[id] {
			continue
		}

		seen[id] = true
		ids = append(ids, id)
	}

	return ids
}

// FillResource sets the ID, every attribute and every relationship of res to
// generated values and returns what was set (field name -> value, deep copies).
func FillResource(t *rapid.T, res jsonapi.Resource, ts *TypeSpec, label string) map[string]any {
	vals := map[string]any{}

	id := IDString(t, label+"-id", false)
	res.Set("id", id)

	vals["id"] = id

	for _, a := range ts.Attrs {
		v := Value(t, a, label+"-"+a.Name)
		vals[a.Name] = Clone(v)
		res.Set(a.Name, v)
	}

	for _, r := range ts.Rels {
		v := RelIDs(t, r, label+"-"+r.FromName, 5, true)

		// A to-many list may hold the empty ID (rarely).
		if ids, ok := v.([]string); ok && rapid.IntRange(0, 11).Draw(t, label+"-"+r.FromName+"-emptyid") == 0 {
			pos := rapid.IntRange(0, len(ids)).Draw(t, label+"-"+r.FromName+"-emptyidpos")
			v = append(append(append([]string{}, ids[:pos]...), ""), ids[pos:]...)
		}

		// A to-many list may name an ID twice (rarely).
		if ids, ok := v.([]string); ok && len(ids) > 0 && rapid.IntRange(0, 7).Draw(t, label+"-"+r.FromName+"-dup") == 0 {
			v = append(ids, ids[rapid.IntRange(0, len(ids)-1).Draw(t, label+"-"+r.FromName+"-dupidx")])
		}

		vals[r.FromName] = Clone(v)
		res.Set(r.FromName, v)
	}

	return vals
}

// ShowVals renders a value map canonically.
func ShowVals(vals map[string]any) string {
	parts := []string{}
	for _, k := range SortedKeys(vals) {
		parts = append(parts, k+"="+Show(vals[k]))
	}

	return "{" + strings.Join(parts, " ") + "}"
}

// IncoherentSchema draws a schema built directly from Type literals in which
// faults may be planted: relationships to missing types, inverses that are
// missing, misnamed or on another type, FromType fields that do not name the
// owner. About half of the schemas are left without any fault. All types are soft.
func IncoherentSchema(t *rapid.T) *SchemaSpec {
	n := rapid.IntRange(1, 5).Draw(t, "ntypes")
	if rapid.IntRange(0, 14).Draw(t, "manytypes") == 0 {
		// a size at which an implementation may switch strategy
		n = rapid.IntRange(15, 26).Draw(t, "ntypes-many")
	}

	typeNames := NamePool(t, n, "tname")
	relPool := NamePool(t, 5, "rname")

	// Dense: few types with many relationships each (a dozen and more),
	// several of them naming inverses of the same name.
	dense := n <= 5 && rapid.IntRange(0, 7).Draw(t, "dense") == 0
	if dense {
		relPool = NamePool(t, 14, "rname-dense")
	}

	faulty := rapid.Bool().Draw(t, "faulty")

	fault := func(label string, oneIn int) bool {
		return faulty && rapid.IntRange(1, oneIn).Draw(t, label) == 1
	}

	specs := make([]TypeSpec, n)
	used := make([]map[string]bool, n)

	for i := range specs {
		specs[i].Name = typeNames[i]
		used[i] = map[string]bool{}

		if rapid.Bool().Draw(t, "hasattr") {
			// (an attribute may bear a name that relationships of other
			// types bear)
			an := "x"
			if rapid.IntRange(0, 2).Draw(t, "attr-relname") == 0 {
				an = rapid.SampledFrom(relPool).Draw(t, "attr-relname-which")
			}

			specs[i].Attrs = []jsonapi.Attr{{Name: an, Type: jsonapi.AttrTypeString}}
			used[i][an] = true
		}

		// (a bare Type{Name: ...} literal has no maps at all)
		specs[i].NilMaps = rapid.Bool().Draw(t, "nilmaps")
	}

	anyType := func(label string) string {
		pool := append([]string{"ghost"}, typeNames...)
		return rapid.SampledFrom(pool).Draw(t, label)
	}

	maxEdges := 8
	if n > maxEdges {
		maxEdges = n
	}

	if dense {
		maxEdges = 50
	}

	ne := rapid.IntRange(0, maxEdges).Draw(t, "nrels")
	for e := 0; e < ne; e++ {
		a := rapid.IntRange(0, n-1).Draw(t, "owner")
		b := rapid.IntRange(0, n-1).Draw(t, "target")
		x := rapid.SampledFrom(relPool).Draw(t, "x")

		if used[a][x] {
			continue
		}

		used[a][x] = true
		rel := jsonapi.Rel{FromType: specs[a].Name, FromName: x, ToOne: rapid.Bool().Draw(t, "toOne"), ToType: specs[b].Name, FromOne: rapid.Bool().Draw(t, "fromOne")}

		if fault("dangling", 6) {
			rel.ToType = "ghost"

			// ... or a name that only looks like a type's: another letter
			// case, a space at the end
			if v := nearMiss(rel.ToType, typeNames, rapid.SampledFrom(typeNames).Draw(t, "nearmiss-of"), rapid.IntRange(0, 3).Draw(t, "nearmiss-form")); v != "" {
				rel.ToType = v
			}
		}

		// The FromType of a one-way relationship is not constrained by Check
		// (only relationships naming an inverse must be declared from their
		// own type); hand-written literals often leave it empty or wrong.
		if fault("onewayFromType", 5) {
			rel.FromType = rapid.SampledFrom(append([]string{"ghost", ""}, typeNames...)).Draw(t, "owft")
			if rapid.Bool().Draw(t, "owftSameAsTarget") {
				rel.FromType = rel.ToType
			}
		}

		if rapid.IntRange(0, 2).Draw(t, "twoway") > 0 {
			y := rapid.SampledFrom(relPool).Draw(t, "y")
			if dense && rapid.Bool().Draw(t, "y-common") {
				y = relPool[rapid.IntRange(0, 1).Draw(t, "y-common-name")]
			}

			rel.ToName = y

			if fault("wrongFromType", 8) {
				rel.FromType = anyType("wft")
			}

			switch {
			case a == b && x == y:
				// its own inverse: nothing to add
			case fault("noInverse", 6):
			case !used[b][y]:
				used[b][y] = true
				inv := jsonapi.Rel{FromType: specs[b].Name, FromName: y, ToOne: rel.FromOne, ToType: specs[a].Name, ToName: x, FromOne: rel.ToOne}

				if fault("misnamed", 6) {
					inv.ToName = rapid.SampledFrom(relPool).Draw(t, "misname")
				}

				if fault("invOtherType", 8) {
					inv.ToType = anyType("iot")
				}

				if fault("invWrongFromType", 8) {
					inv.FromType = anyType("iwft")
				}

				specs[b].Rels = append(specs[b].Rels, inv)
			}
		}

		specs[a].Rels = append(specs[a].Rels, rel)
	}

	for i := range specs {
		sort.Slice(specs[i].Rels, func(a, b int) bool { return specs[i].Rels[a].FromName < specs[i].Rels[b].FromName })

		// Hand-written Type literals may store a relationship under a key
		// that is not its name (the library's own TestSchemaCheck does).
		if rapid.IntRange(0, 3).Draw(t, "oddkeys") == 0 {
			names := []string{}
			for _, r := range specs[i].Rels {
				names = append(names, r.FromName)
			}

			keys := append([]string{}, names...)
			if len(keys) > 1 && rapid.Bool().Draw(t, "swapkeys") {
				keys = rapid.Permutation(keys).Draw(t, "keyperm")
			} else {
				for k := range keys {
					keys[k] = "k-" + keys[k]
				}
			}

			specs[i].RelKeys = map[string]string{}
			for k, n := range names {
				specs[i].RelKeys[n] = keys[k]
			}
		}
	}

	// Like coherent schemas, some are reached through a longer history of
	// edits (a throw-away type; types taken out and put back).
	at, readdFrom := -1, -1
	if rapid.IntRange(0, 3).Draw(t, "scaffold") == 0 {
		at = rapid.IntRange(0, len(specs)).Draw(t, "scaffold-at")
	}

	if rapid.IntRange(0, 5).Draw(t, "readd") == 0 {
		readdFrom = rapid.IntRange(0, len(specs)-1).Draw(t, "readd-from")
	}

	return BuildSchemaWithHistory(specs, at, readdFrom, rapid.Bool().Draw(t, "readd-usebefore"))
}

package gen

import (
	"bytes"
	"encoding/json"
	"fmt"
	"io"
	"strings"

	"pgregory.net/rapid"
)

// Node is an ordered JSON tree that can hold duplicate keys.
type Node struct {
	Kind    string // object, array, string, number, bool, null, raw
	Str     string // string value; number text; raw text
	Bool    bool
	Keys    []string // object member names, in order
	Members []*Node  // object member values / array elements
}

// ParseTree parses JSON text into an ordered tree (duplicate keys kept).
func ParseTree(b []byte) (*Node, error) {
	dec := json.NewDecoder(bytes.NewReader(b))
	dec.UseNumber()

	n, err := parseNode(dec)
	if err != nil {
		return nil, err
	}

	if _, err := dec.Token(); err != io.EOF {
		return nil, fmt.Errorf("trailing data")
	}

	return n, nil
}

func parseNode(dec *json.Decoder) (*Node, error) {
	tok, err := dec.Token()
	if err != nil {
		return nil, err
	}

	switch v := tok.(type) {
	case json.Delim:
		switch v {
		case '{':
			n := &Node{Kind: "object"}

			for dec.More() {
				kt, err := dec.Token()
				if err != nil {
					return nil, err
				}

				k, ok := kt.(string)
				if !ok {
					return nil, fmt.Errorf("object key is not a string")
				}

				m, err := parseNode(dec)
				if err != nil {
					return nil, err
				}

				n.Keys = append(n.Keys, k)
				n.Members = append(n.Members, m)
			}

			if _, err := dec.Token(); err != nil {
				return nil, err
			}

			return n, nil
		case '[':
			n := &Node{Kind: "array"}

			for dec.More() {
				m, err := parseNode(dec)
				if err != nil {
					return nil, err
				}

				n.Members = append(n.Members, m)
			}

			if _, err := dec.Token(); err != nil {
				return nil, err
			}

			return n, nil
		}

		return nil, fmt.Errorf("unexpected delimiter %v", v)
	case string:
		return &Node{Kind: "string", Str: v}, nil
	case json.Number:
		return &Node{Kind: "number", Str: v.String()}, nil
	case bool:
		return &Node{Kind: "bool", Bool: v}, nil
	case nil:
		return &Node{Kind: "null"}, nil
	}

	return nil, fmt.Errorf("unexpected token %v", tok)
}

// Text serialises the tree.
func (n *Node) Text() string {
	var b strings.Builder
	n.write(&b)

	return b.String()
}

func (n *Node) write(b *strings.Builder) {
	switch n.Kind {
	case "object":
		b.WriteByte('{')

		for i := range n.Members {
			if i > 0 {
				b.WriteByte(',')
			}

			b.WriteString(QuoteJSON(n.Keys[i]))
			b.WriteByte(':')
			n.Members[i].write(b)
		}

		b.WriteByte('}')
	case "array":
		b.WriteByte('[')

		for i := range n.Members {
			if i > 0 {
				b.WriteByte(',')
			}

			n.Members[i].write(b)
		}

		b.WriteByte(']')
	case "string":
		b.WriteString(QuoteJSON(n.Str))
	case "number", "raw":
		b.WriteString(n.Str)
	case "bool":
		if n.Bool {
			b.WriteString("true")
		} else {
			b.WriteString("false")
		}
	default:
		b.WriteString("null")
	}
}

// clone returns a deep copy of the tree.
func (n *Node) clone() *Node {
	c := *n
	c.Keys = append([]string(nil), n.Keys...)
	c.Members = make([]*Node, len(n.Members))

	for i, m := range n.Members {
		c.Members[i] = m.clone()
	}

	return &c
}

// Get returns the first member with the key.
func (n *Node) Get(key string) *Node {
	if n == nil || n.Kind != "object" {
		return nil
	}

	for i, k := range n.Keys {
		if k == key {
			return n.Members[i]
		}
	}

	return nil
}

// Walk visits every node with the path of keys leading to it.
func (n *Node) Walk(path []string, f func(path []string, n *Node)) {
	f(path, n)

	switch n.Kind {
	case "object":
		for i, m := range n.Members {
			m.Walk(append(append([]string{}, path...), n.Keys[i]), f)
		}
	case "array":
		for _, m := range n.Members {
			m.Walk(append(append([]string{}, path...), "[]"), f)
		}
	}
}

type slot struct {
	parent *Node
	index  int
	key    string
}

func (n *Node) slots(out *[]slot) {
	for i, m := range n.Members {
		k := ""
		if n.Kind == "object" {
			k = n.Keys[i]
		}

		*out = append(*out, slot{n, i, k})
		m.slots(out)
	}
}

// OtherKind draws a small value of a chosen JSON kind.
func OtherKind(t *rapid.T, label string) *Node {
	switch rapid.IntRange(0, 9).Draw(t, label) {
	case 0:
		return &Node{Kind: "null"}
	case 1:
		return &Node{Kind: "bool", Bool: rapid.Bool().Draw(t, label+"-b")}
	case 2:
		return &Node{Kind: "number", Str: rapid.SampledFrom([]string{"0", "12", "-1", "1.5", "1e400", "300", "-0", "18446744073709551616", "1e-7", "0.5e-3", "12E-4", "0e-2", "-1e-400", "1.0", "1e2", "9223372036854775808.0", "0.000"}).Draw(t, label+"-n")}
	case 3:
		return &Node{Kind: "string", Str: rapid.SampledFrom([]string{"", "x", "!!", "AQID", "2020-01-01T00:00:00Z", "nope", "null", "12"}).Draw(t, label+"-s")}
	case 4:
		return &Node{Kind: "array"}
	case 5:
		return &Node{Kind: "array", Members: []*Node{{Kind: "null"}}}
	case 6:
		return &Node{Kind: "array", Members: []*Node{{Kind: "number", Str: "1"}, {Kind: "string", Str: "a"}}}
	case 7:
		return &Node{Kind: "object"}
	case 8:
		return &Node{Kind: "object", Keys: []string{"id", "type"}, Members: []*Node{{Kind: "string", Str: "1"}, {Kind: "string", Str: "nope"}}}
	default:
		return &Node{Kind: "object", Keys: []string{"data"}, Members: []*Node{{Kind: "null"}}}
	}
}

// Mutate applies 1..3 JSON-level mutations to the tree in place and returns
// their names.
func Mutate(t *rapid.T, root *Node, typeNames []string) []string {
	applied := []string{}
	n := rapid.IntRange(1, 3).Draw(t, "nmut")

	for i := 0; i < n; i++ {
		var sl []slot
		root.slots(&sl)

		if len(sl) == 0 {
			break
		}

		s := sl[rapid.IntRange(0, len(sl)-1).Draw(t, "slot")]
		cur := s.parent.Members[s.index]
		kind := rapid.SampledFrom([]string{"replace-kind", "replace-kind", "replace-kind", "delete", "duplicate-key", "unknown-type", "unknown-field", "null-element", "deep-nest", "swap-type", "edit-string", "edit-string", "link-object", "repeat-elements", "member-case"}).Draw(t, "mutation")

		switch kind {
		case "replace-kind":
			s.parent.Members[s.index] = OtherKind(t, "other")
		case "delete":
			s.parent.Members = append(s.parent.Members[:s.index], s.parent.Members[s.index+1:]...)
			if s.parent.Kind == "object" {
				s.parent.Keys = append(s.parent.Keys[:s.index], s.parent.Keys[s.index+1:]...)
			}
		case "duplicate-key":
			if s.parent.Kind != "object" {
				continue
			}

			s.parent.Keys = append(s.parent.Keys, s.key)
			s.parent.Members = append(s.parent.Members, OtherKind(t, "dupval"))
		case "unknown-type", "swap-type":
			// find a "type" member somewhere and change it
			found := false

			for _, c := range sl {
				if c.key == "type" && c.parent.Members[c.index].Kind == "string" {
					v := "nope"
					if kind == "swap-type" && len(typeNames) > 0 {
						v = rapid.SampledFrom(typeNames).Draw(t, "swapto")
					} else {
						// ... or the name as it is written, in another letter
						// case or with a blank behind it: not that type either.
						cur := c.parent.Members[c.index].Str
						v = rapid.SampledFrom([]string{"nope", "", " ", "a\x00", strings.ToUpper(cur), strings.ToLower(cur), strings.Title(cur), cur + " ", cur + "s"}).Draw(t, "unktype")
					}

					c.parent.Members[c.index] = &Node{Kind: "string", Str: v}
					found = true

					if rapid.Bool().Draw(t, "firstonly") {
						break
					}
				}
			}

			if !found {
				continue
			}
		case "member-case":
			// the name of a member in another letter case (encoding/json
			// matches the members of a struct without regard to it)
			if s.parent.Kind != "object" || s.key == "" {
				continue
			}

			switch rapid.IntRange(0, 2).Draw(t, "member-case-form") {
			case 0:
				s.parent.Keys[s.index] = strings.ToUpper(s.key)
			case 1:
				s.parent.Keys[s.index] = strings.ToUpper(s.key[:1]) + s.key[1:]
			default:
				s.parent.Keys[s.index] = strings.ReplaceAll(strings.ReplaceAll(s.key, "s", "ſ"), "k", "\u212a")
			}
		case "unknown-field":
			if cur.Kind != "object" {
				continue
			}

			cur.Keys = append(cur.Keys, rapid.SampledFrom([]string{"nope", "", "id", "type", "data"}).Draw(t, "unkfield"))
			cur.Members = append(cur.Members, OtherKind(t, "unkval"))
		case "null-element":
			if cur.Kind != "array" {
				continue
			}

			cur.Members = append(cur.Members, &Node{Kind: "null"})
		case "edit-string":
			// Same JSON kind, another text: a character dropped, a prefix, a
			// suffix, doubled, emptied (a version "1.0" becomes "10", "1",
			// ".0", ...; an RFC 3339 time loses its zone; base64 its padding).
			if cur.Kind != "string" {
				continue
			}

			rs := []rune(cur.Str)
			v := ""

			if len(rs) > 0 {
				i := rapid.IntRange(0, len(rs)-1).Draw(t, "editpos")

				switch rapid.IntRange(0, 4).Draw(t, "editop") {
				case 0:
					v = string(rs[:i]) + string(rs[i+1:])
				case 1:
					v = string(rs[:i])
				case 2:
					v = string(rs[i:])
				case 3:
					v = cur.Str + cur.Str
				}
			}

			s.parent.Members[s.index] = &Node{Kind: "string", Str: v}
		case "repeat-elements":
			// Elements of a list given twice, next to each other (the same
			// resource object twice among the included, the same identifier
			// twice in a linkage): one, or each of them.
			if cur.Kind != "array" || len(cur.Members) == 0 {
				continue
			}

			all := rapid.Bool().Draw(t, "repeat-all")
			which := rapid.IntRange(0, len(cur.Members)-1).Draw(t, "repeat-which")
			out := []*Node{}

			for k, m := range cur.Members {
				out = append(out, m)
				if all || k == which {
					out = append(out, m.clone())
				}
			}

			cur.Members = out
		case "link-object":
			// A links member whose links are written in their object form
			// (href and meta), the meta being of any JSON kind.
			if cur.Kind != "object" {
				continue
			}

			link := &Node{Kind: "object", Keys: []string{"href", "meta"}, Members: []*Node{{Kind: "string", Str: "/x"}, OtherKind(t, "linkmeta")}}
			if rapid.IntRange(0, 3).Draw(t, "linkhref") == 0 {
				link.Members[0] = OtherKind(t, "linkhref-kind")
			}

			cur.Keys = append(cur.Keys, "links")
			cur.Members = append(cur.Members, &Node{Kind: "object", Keys: []string{"self", "related"}, Members: []*Node{link, {Kind: "string", Str: "/y"}}})
		case "deep-nest":
			depth := rapid.SampledFrom([]int{3, 100, 5000, 10001}).Draw(t, "depth")
			s.parent.Members[s.index] = &Node{Kind: "raw", Str: strings.Repeat("[", depth) + cur.Text() + strings.Repeat("]", depth)}
		}

		applied = append(applied, kind)
	}

	return applied
}

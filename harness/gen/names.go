// Package gen holds the shared generators of the harness. Every random choice
// is drawn from rapid so that shrinking and replay work.
package gen

import (
	"os"
	"sort"
	"strings"

	"pgregory.net/rapid"
)

// Thorough reports whether the thorough tier is running (VERIF_TIER is set by
// the driver). Generators then also draw larger structures.
func Thorough() bool { return os.Getenv("VERIF_TIER") == "thorough" }

// Upto returns the upper bound for a size draw: n in the quick tier; in the
// thorough tier one case in three may go up to 3n.
func Upto(t *rapid.T, label string, n int) int {
	if Thorough() && rapid.IntRange(0, 2).Draw(t, label+"-big") == 0 {
		return 3 * n
	}

	return n
}

// reserved are names never used for types or fields: "id" and "type" are
// forbidden by JSON:API as field names, "meta" and "relationships" are path
// keywords of the URL grammar.
var reserved = map[string]bool{"id": true, "type": true, "meta": true, "relationships": true, "": true}

// (JSON:API member names may also hold any character from U+0080 up: a
// letter and a symbol stand for those, drawn less often than the ASCII ones.)
var nameInner = []rune("abcrA1-_abcrA1-_abcrA10-_é€ ")
var nameEdge = []rune("abcrA1abcrA1abcrA10é€")

// Name draws a JSON:API member name: [a-z0-9] at both ends, '-' and '_' allowed
// inside, length 1..5, over a deliberately tiny alphabet so that duplicates,
// string prefixes (r, rr, r-x) and concatenation collisions (ab+c / a+bc,
// a_b+c / a+b_c) are frequent.
func Name(t *rapid.T, label string) string {
	for try := 0; ; try++ {
		n := rapid.IntRange(1, 5).Draw(t, label+"-len")
		rs := make([]rune, n)

		for i := range rs {
			if i == 0 || i == n-1 {
				rs[i] = rapid.SampledFrom(nameEdge).Draw(t, label+"-r")
			} else {
				rs[i] = rapid.SampledFrom(nameInner).Draw(t, label+"-r")
			}
		}

		s := string(rs)
		if !reserved[s] {
			return s
		}

		if try > 20 {
			return "n"
		}
	}
}

// NamePool draws n distinct names. With some probability a new name is derived
// from an earlier one (extension, split point moved) to force collisions.
func NamePool(t *rapid.T, n int, label string) []string {
	pool := []string{}
	seen := map[string]bool{}

	for len(pool) < n {
		var s string

		mode := 0
		if len(pool) > 0 {
			mode = rapid.IntRange(0, 7).Draw(t, label+"-mode")
		}

		switch mode {
		case 1: // extension of an earlier name: r -> rr, r -> r-x
			base := rapid.SampledFrom(pool).Draw(t, label+"-base")
			ext := rapid.SampledFrom([]string{"r", "a", "-x", "_b", "1", ".", ""}).Draw(t, label+"-ext")
			ext = strings.ReplaceAll(ext, ".", "")
			s = base + ext

			if ext == "" {
				rs := []rune(base)
				s = base + string(rs[len(rs)-1])
			}
		case 5: // an earlier name in another letter case (names are case-sensitive)
			base := rapid.SampledFrom(pool).Draw(t, label+"-base")
			if rs, up := []rune(base), []rune(strings.ToUpper(base)); len(up) == len(rs) && string(up) != base {
				s = string(up[:1]) + string(rs[1:])
			} else {
				s = strings.ToLower(base)
			}
		case 6: // an earlier name with something in front: r -> ar, r -> b1r
			base := rapid.SampledFrom(pool).Draw(t, label+"-base")
			s = rapid.SampledFrom([]string{"a", "r", "u", "b1", "c-", "1_"}).Draw(t, label+"-front") + base
		case 7: // an earlier name with a zero in front of a digit: a1 -> a01
			base := rapid.SampledFrom(pool).Draw(t, label+"-base")
			if i := strings.IndexAny(base, "0123456789"); i >= 0 {
				s = base[:i] + "0" + base[i:]
			}
		case 2: // prefix of an earlier name
			base := rapid.SampledFrom(pool).Draw(t, label+"-base")
			if rs := []rune(base); len(rs) > 1 {
				s = string(rs[:rapid.IntRange(1, len(rs)-1).Draw(t, label+"-cut")])
				s = strings.TrimRight(s, "-_")
			}
		default:
			s = Name(t, label)
		}

		if s == "" || reserved[s] || seen[s] || len(s) > 8 {
			s = Name(t, label)
		}

		if seen[s] {
			// Rare; fall back to a certainly fresh name.
			s = s + "1"
			for seen[s] {
				s += "1"
			}
		}

		seen[s] = true
		pool = append(pool, s)
	}

	return pool
}

// HostileRunes are characters that JSON, URLs or HTML treat specially.
var HostileRunes = []rune{
	0, '"', '\\', '/', '<', '>', '&', ' ', '\u00a0', '\u00e9', '\u65e5', '\U0001F600', '\n', '\t', '\x7f',
	'\u2028', '\u2029', '?', '#', '%', '+', '=', ',', '[', ']', '.', ';', ':', '@', '{', '}', '\'', '\ufffd',
	'a', 'b', 'Z', '0', '9', '-', '_', '~',
}

// HostileString draws a valid UTF-8 string of 0..12 runes (tail to 40) mixing
// plain and hostile characters.
func HostileString(t *rapid.T, label string) string {
	// Texts that look like escape sequences of some layer (JSON, URL, HTML)
	// but are plain characters here.
	if rapid.IntRange(0, 14).Draw(t, label+"-lookalike") == 0 {
		return rapid.SampledFrom([]string{
			`\u003c`, `a\u0026b`, `C:\u003edir`, `\n`, `\"`, `%41`, `%zz`, `&amp;`, `\/`, `\\`, `\u00e9`, `+`, `%2B`, `&#39;`,
			// ... or like what Go prints for values that are not strings
			`<nil>`, `null`, `[]`, `map[]`, `<invalid Value>`, `%!s(<nil>)`, `true`, `0`,
		}).Draw(t, label+"-lookalike-text")
	}

	max := 12
	if rapid.IntRange(0, 19).Draw(t, label+"-long") == 0 {
		max = 40
	}

	n := rapid.IntRange(0, max).Draw(t, label+"-len")
	rs := make([]rune, n)

	for i := range rs {
		if rapid.IntRange(0, 2).Draw(t, label+"-cls") == 0 {
			r := rapid.Rune().Draw(t, label+"-any")
			if r >= 0xD800 && r <= 0xDFFF || r > 0x10FFFF {
				r = 'x'
			}

			rs[i] = r
		} else {
			rs[i] = rapid.SampledFrom(HostileRunes).Draw(t, label+"-h")
		}
	}

	return string(rs)
}

// IDString draws a resource ID: mostly short and plain (so that collisions
// between IDs happen), sometimes hostile, sometimes empty when allowEmpty.
func IDString(t *rapid.T, label string, allowEmpty bool) string {
	switch rapid.IntRange(0, 9).Draw(t, label+"-kind") {
	case 0, 1:
		s := HostileString(t, label)
		if s == "" && !allowEmpty {
			return "x"
		}

		return s
	case 2:
		if allowEmpty {
			return ""
		}

		fallthrough
	case 3:
		// IDs made of the characters lists of IDs are written with.
		return rapid.StringMatching(`[ab, ]{1,4}`).Draw(t, label+"-sep")
	case 4:
		// IDs that read like numbers in some spelling, or like the
		// percent-encoding of another text: all of them just strings.
		return rapid.SampledFrom([]string{"007", "+5", "-0", "10", "9", "1e3", "0x1f", "100%25", "a%20b", "%2F", "%C3%A9", "50%", "1.0"}).Draw(t, label+"-numlike")
	default:
		return rapid.StringMatching(`[a-c1-3]{1,3}`).Draw(t, label)
	}
}

// SortedKeys returns the keys of a map in sorted order (the harness never
// depends on Go's map iteration order).
func SortedKeys[V any](m map[string]V) []string {
	ks := make([]string, 0, len(m))
	for k := range m {
		ks = append(ks, k)
	}

	sort.Strings(ks)

	return ks
}

package gen

import (
	"fmt"
	"math"
	"strings"
	"time"

	"github.com/mfcochauxlaberge/jsonapi"
	"pgregory.net/rapid"
)

// FNode is the harness' model of a filter tree.
type FNode struct {
	Op    string
	Field string
	Val   any // leaf value: the field's Go type, []string for "in", string for "has"
	Kids  []*FNode

	NilEmpty bool   // pass an empty list value as a nil slice
	Col      string // collation named by the node (the library carries it along, filtering does not depend on it)
	Group    bool   // a node whose value is a list of filters under an operator that is neither "and" nor "or"
}

// Build converts the model into the library's Filter value (fresh copies of
// every slice so that in-place sorting by the library cannot touch the model).
func (n *FNode) Build() *jsonapi.Filter {
	if n.Op == "and" || n.Op == "or" || n.Group {
		kids := make([]*jsonapi.Filter, len(n.Kids))
		for i, k := range n.Kids {
			kids[i] = k.Build()
		}

		return &jsonapi.Filter{Op: n.Op, Val: kids, Col: n.Col}
	}

	v := Clone(n.Val)

	// An empty list is passed as a nil slice: both spell "no IDs".
	if ids, ok := v.([]string); ok && len(ids) == 0 && n.NilEmpty {
		v = []string(nil)
	}

	return &jsonapi.Filter{Field: n.Field, Op: n.Op, Val: v, Col: n.Col}
}

func (n *FNode) String() string {
	if n.Op == "and" || n.Op == "or" || n.Group {
		parts := make([]string, len(n.Kids))
		for i, k := range n.Kids {
			parts[i] = k.String()
		}

		return n.Op + "(" + strings.Join(parts, ", ") + ")"
	}

	return fmt.Sprintf("%s %s %s", n.Field, n.Op, Show(n.Val))
}

// Depth returns the nesting depth (a leaf is 1).
func (n *FNode) Depth() int {
	d := 0

	for _, k := range n.Kids {
		if kd := k.Depth(); kd > d {
			d = kd
		}
	}

	return d + 1
}

// Mixed reports whether the tree contains both an "and" and an "or" node.
func (n *FNode) Mixed() bool {
	ops := map[string]bool{}

	var walk func(*FNode)

	walk = func(m *FNode) {
		if m.Op == "and" || m.Op == "or" {
			ops[m.Op] = true
		}

		for _, k := range m.Kids {
			walk(k)
		}
	}
	walk(n)

	return ops["and"] && ops["or"]
}

// AttrOps are the operators generated for attribute leaves.
// The unknown ones include look-alikes of the known operators.
var AttrOps = []string{"=", "!=", "<", "<=", ">", ">=", "~unknown", "==", "!==", "<==", ">==", "=<", "<>", "", " =", "IN"}

func neighbour(t *rapid.T, base any, label string) any {
	up := rapid.Bool().Draw(t, label+"-up")

	switch v := base.(type) {
	case string:
		if up {
			return v + rapid.SampledFrom([]string{"\x00", "a", " "}).Draw(t, label+"-suffix")
		}

		if len(v) > 0 {
			return v[:len(v)-1]
		}

		return "a"
	case []byte:
		c := append([]byte{}, v...)

		switch {
		case up:
			return append(c, rapid.SampledFrom([]byte{0, 1, 0xff}).Draw(t, label+"-suffix"))
		case len(c) > 0 && rapid.Bool().Draw(t, label+"-flip"):
			// same length, one byte changed (possibly not the last one)
			i := rapid.IntRange(0, len(c)-1).Draw(t, label+"-pos")
			c[i] ^= byte(rapid.IntRange(1, 255).Draw(t, label+"-xor"))

			return c
		case len(c) > 0:
			return c[:len(c)-1]
		}

		return []byte{0}
	case time.Time:
		d := rapid.SampledFrom([]time.Duration{time.Nanosecond, time.Second, time.Hour}).Draw(t, label+"-d")
		if !up {
			d = -d
		}

		return v.Add(d)
	case bool:
		return !v
	case int:
		if up && v < math.MaxInt64 {
			return v + 1
		} else if v > math.MinInt64 {
			return v - 1
		}

		return v + 1
	case int8:
		if up && v < math.MaxInt8 {
			return v + 1
		} else if v > math.MinInt8 {
			return v - 1
		}

		return v + 1
	case int16:
		if up && v < math.MaxInt16 {
			return v + 1
		} else if v > math.MinInt16 {
			return v - 1
		}

		return v + 1
	case int32:
		if up && v < math.MaxInt32 {
			return v + 1
		} else if v > math.MinInt32 {
			return v - 1
		}

		return v + 1
	case int64:
		if up && v < math.MaxInt64 {
			return v + 1
		} else if v > math.MinInt64 {
			return v - 1
		}

		return v + 1
	case uint:
		if up && v < math.MaxUint64 {
			return v + 1
		} else if v > 0 {
			return v - 1
		}

		return v + 1
	case uint8:
		if up && v < math.MaxUint8 {
			return v + 1
		} else if v > 0 {
			return v - 1
		}

		return v + 1
	case uint16:
		if up && v < math.MaxUint16 {
			return v + 1
		} else if v > 0 {
			return v - 1
		}

		return v + 1
	case uint32:
		if up && v < math.MaxUint32 {
			return v + 1
		} else if v > 0 {
			return v - 1
		}

		return v + 1
	case uint64:
		if up && v < math.MaxUint64 {
			return v + 1
		} else if v > 0 {
			return v - 1
		}

		return v + 1
	}

	panic(fmt.Sprintf("gen: neighbour(%T)", base))
}

// PairValue draws a filter value for an attribute relative to the value rv the
// resource holds: equal (for times: same instant in another zone), adjacent,
// a fresh random value, or nil. It returns the value and its class.
func PairValue(t *rapid.T, attr jsonapi.Attr, rv any, label string) (any, string) {
	rnil, rbase := Deref(rv)
	cls := rapid.SampledFrom([]string{"equal", "equal", "adjacent", "adjacent", "random", "nil"}).Draw(t, label+"-class")

	if cls == "nil" && !attr.Nullable {
		cls = "random"
	}

	if rnil && (cls == "equal") {
		cls = "nil"
	}

	if rnil && cls == "adjacent" {
		cls = "random"
	}

	wrap := func(b any) any {
		if attr.Nullable {
			return PtrTo(b)
		}

		return b
	}

	switch cls {
	case "nil":
		return TypedNil(attr.Type), cls
	case "equal":
		_, c := Deref(Clone(rv))
		if tm, ok := c.(time.Time); ok {
			c = tm.In(time.FixedZone("", rapid.SampledFrom([]int{0, 3600, -7200, 19800}).Draw(t, label+"-zone")))
		}

		return wrap(c), cls
	case "adjacent":
		return wrap(neighbour(t, rbase, label)), cls
	default:
		return wrap(BaseValue(t, attr.Type, label+"-rnd")), cls
	}
}

// FilterLeaf draws a well-typed leaf on one of the type's fields, with the
// value drawn relative to what the resource holds.
func FilterLeaf(t *rapid.T, ts *TypeSpec, vals map[string]any, label string) *FNode {
	nf := len(ts.Attrs) + len(ts.Rels)
	i := rapid.IntRange(0, nf-1).Draw(t, label+"-field")

	if i < len(ts.Attrs) {
		a := ts.Attrs[i]
		ops := AttrOps

		if a.Type == jsonapi.AttrTypeString && !a.Nullable {
			ops = append(append([]string{}, ops...), "in")
		}

		op := rapid.SampledFrom(ops).Draw(t, label+"-op")
		if op == "in" {
			list := []string{}
			n := rapid.IntRange(0, 3).Draw(t, label+"-nin")
			if rapid.IntRange(0, 7).Draw(t, label+"-nin-long") == 0 {
				// (a length at which a list may be turned into a set)
				n = rapid.IntRange(8, 20).Draw(t, label+"-nin-many")
			}

			for j := 0; j < n; j++ {
				if n < 8 && rapid.Bool().Draw(t, label+"-inhit") || n >= 8 && j == 0 && rapid.Bool().Draw(t, label+"-inhit-long") {
					list = append(list, vals[a.Name].(string))
				} else {
					list = append(list, HostileString(t, label+"-inval"))
				}
			}

			return &FNode{Op: op, Field: a.Name, Val: list}
		}

		v, _ := PairValue(t, a, vals[a.Name], label+"-val")

		return &FNode{Op: op, Field: a.Name, Val: v}
	}

	r := ts.Rels[i-len(ts.Attrs)]

	if r.ToOne {
		cur := vals[r.FromName].(string)
		// (an ID is a string: the ordering operators compare it like one)
		op := rapid.SampledFrom([]string{"=", "!=", "in", "~unknown", "==", "!==", "In", "", "<", "<=", ">", ">="}).Draw(t, label+"-op")

		if op == "in" {
			list := []string{}
			n := rapid.IntRange(0, 3).Draw(t, label+"-nin")
			if rapid.IntRange(0, 7).Draw(t, label+"-nin-long") == 0 {
				// (a length at which a list may be turned into a set)
				n = rapid.IntRange(8, 20).Draw(t, label+"-nin-many")
			}

			for j := 0; j < n; j++ {
				if n < 8 && rapid.Bool().Draw(t, label+"-inhit") || n >= 8 && j == 0 && rapid.Bool().Draw(t, label+"-inhit-long") {
					list = append(list, cur)
				} else {
					list = append(list, IDString(t, label+"-inval", true))
				}
			}

			return &FNode{Op: op, Field: r.FromName, Val: list}
		}

		v := cur

		switch rapid.IntRange(0, 3).Draw(t, label+"-other") {
		case 0, 1:
			v = IDString(t, label+"-id", true)
		case 2:
			// a neighbour: longer, shorter, zero in front (numbers that read
			// the same, strings that do not)
			v = neighbour(t, cur, label+"-nb").(string)
			if rapid.IntRange(0, 2).Draw(t, label+"-lead0") == 0 {
				v = "0" + cur
			}
		}

		return &FNode{Op: op, Field: r.FromName, Val: v}
	}

	cur := vals[r.FromName].([]string)
	op := rapid.SampledFrom([]string{"=", "!=", "has", "~unknown", "<", "==", "!==", "Has", "<="}).Draw(t, label+"-op")

	if op == "has" {
		v := IDString(t, label+"-id", false)
		if len(cur) > 0 && rapid.Bool().Draw(t, label+"-hit") {
			v = rapid.SampledFrom(cur).Draw(t, label+"-member")
		}

		return &FNode{Op: op, Field: r.FromName, Val: v}
	}

	var v []string

	switch rapid.IntRange(0, 4).Draw(t, label+"-setclass") {
	case 4:
		// The same characters cut differently: as many IDs, the same text
		// when both lists are written with commas in between.
		toks := strings.Split(strings.Join(cur, ","), ",")
		v = RelIDs(t, r, label+"-rnd", 4, true).([]string)

		if len(cur) >= 2 && len(toks) > len(cur) {
			v = []string{}
			rest := toks

			for g := len(cur); g >= 1; g-- {
				take := 1
				if g > 1 {
					take = rapid.IntRange(1, len(rest)-(g-1)).Draw(t, label+"-regroup")
				} else {
					take = len(rest)
				}

				v = append(v, strings.Join(rest[:take], ","))
				rest = rest[take:]
			}
		}
	case 0:
		v = append([]string{}, cur...)
		if len(v) > 1 {
			v = rapid.Permutation(v).Draw(t, label+"-perm")
		}
	case 1:
		v = append([]string{}, cur...)
		if len(v) > 0 {
			v = v[:len(v)-1]
		} else {
			v = []string{"x"}
		}
	case 2:
		v = append(append([]string{}, cur...), IDString(t, label+"-extra", false))
	default:
		v = RelIDs(t, r, label+"-rnd", 4, true).([]string)
	}

	return &FNode{Op: op, Field: r.FromName, Val: v, NilEmpty: rapid.Bool().Draw(t, label+"-nilempty")}
}

// drawCol: one node in six names a collation (what a URL's "c" member ends up
// as); the verdict is the same with or without it.
func drawCol(t *rapid.T, label string) string {
	if rapid.IntRange(0, 5).Draw(t, label+"-hascol") != 0 {
		return ""
	}

	return rapid.SampledFrom([]string{"nocase", "binary", "en_US", "utf8 ci", "unknown", " "}).Draw(t, label+"-col")
}

// FilterTree draws a well-typed filter tree.
func FilterTree(t *rapid.T, ts *TypeSpec, vals map[string]any, depth int, label string) *FNode {
	if depth <= 1 || len(ts.Attrs)+len(ts.Rels) > 0 && rapid.IntRange(0, 2).Draw(t, label+"-leaf") == 0 {
		if len(ts.Attrs)+len(ts.Rels) == 0 {
			return &FNode{Op: rapid.SampledFrom([]string{"and", "or"}).Draw(t, label+"-emptyop")}
		}

		leaf := FilterLeaf(t, ts, vals, label)
		leaf.Col = drawCol(t, label)

		return leaf
	}

	n := &FNode{Op: rapid.SampledFrom([]string{"and", "or"}).Draw(t, label+"-op"), Col: drawCol(t, label+"-group")}

	// A list of filters under an operator nobody knows allows nothing.
	if rapid.IntRange(0, 11).Draw(t, label+"-unkgroup") == 0 {
		n.Op, n.Group = rapid.SampledFrom([]string{"xor", "nand", "not", "AND", "Or", "&&", "", "and ", "all"}).Draw(t, label+"-unkgroup-op"), true
	}

	k := rapid.IntRange(0, 4).Draw(t, label+"-nkids")

	for i := 0; i < k; i++ {
		n.Kids = append(n.Kids, FilterTree(t, ts, vals, depth-1, label+"-k"))
	}

	return n
}

package gen

import (
	"encoding/base64"
	"fmt"
	"math/big"
	"strings"
	"time"
	"unicode/utf8"

	"github.com/mfcochauxlaberge/jsonapi"
	"pgregory.net/rapid"
)

// Lit is a JSON literal whose meaning was drawn first and then rendered to
// text in one of several spellings.
type Lit struct {
	Text     string // JSON text
	JSONKind string // number, string, bool, null, array, object
	Spelling string // label of the spelling used

	// number
	Rat      *big.Rat // exact value
	Integral bool
	Int      *big.Int // when Integral

	// string
	Str string // decoded string

	// string that denotes an RFC 3339 time
	HasInstant bool
	Instant    time.Time
	TruncNanos bool // more than 9 fractional digits: stored instant may be up to 1ns below

	// string that is base64 of Bytes under a lenient reading
	HasBytes bool
	Bytes    []byte

	Bool      bool
	Canonical bool
}

func (l Lit) String() string {
	return fmt.Sprintf("%s[%s/%s]", l.Text, l.JSONKind, l.Spelling)
}

// JSONString renders a Go string as a JSON string literal with a chosen escape style.
func JSONString(t *rapid.T, s string, label string) (string, string) {
	style := rapid.SampledFrom([]string{"minimal", "minimal", "u-escape-all", "short-escapes", "slash"}).Draw(t, label+"-style")

	var b strings.Builder

	b.WriteByte('"')

	for _, r := range s {
		switch {
		case style == "u-escape-all" && r < 0x10000:
			fmt.Fprintf(&b, `\u%04x`, r)
		case style == "u-escape-all":
			r -= 0x10000
			fmt.Fprintf(&b, `\u%04X\u%04X`, 0xD800+(r>>10), 0xDC00+(r&0x3ff))
		case r == '"':
			b.WriteString(`\"`)
		case r == '\\':
			b.WriteString(`\\`)
		case r == '\n' && style == "short-escapes":
			b.WriteString(`\n`)
		case r == '\t' && style == "short-escapes":
			b.WriteString(`\t`)
		case r == '/' && style == "slash":
			b.WriteString(`\/`)
		case r < 0x20:
			fmt.Fprintf(&b, `\u%04x`, r)
		default:
			b.WriteRune(r)
		}
	}

	b.WriteByte('"')

	return b.String(), style
}

// IntLit renders the integer n in one of several JSON spellings.
func IntLit(t *rapid.T, n *big.Int, label string) Lit {
	l := Lit{JSONKind: "number", Rat: new(big.Rat).SetInt(n), Integral: true, Int: n}
	sp := rapid.SampledFrom([]string{"plain", "plain", "plain", "plain", "fraction.0", "exponent", "neg-zero", "big-exponent"}).Draw(t, label+"-spelling")

	switch sp {
	case "fraction.0":
		l.Text = n.String() + "." + strings.Repeat("0", rapid.IntRange(1, 3).Draw(t, label+"-zeros"))
	case "exponent":
		// n = m * 10^k with k trailing zeros moved to the exponent (or e0).
		s := n.String()
		k := 0

		for len(s) > 1 && strings.HasSuffix(s, "0") && s != "-0" && k < 3 {
			s = s[:len(s)-1]
			k++
		}

		if s == "-" {
			s = "-0"
		}

		l.Text = fmt.Sprintf("%s%s%s%d", s, rapid.SampledFrom([]string{"e", "E"}).Draw(t, label+"-e"), rapid.SampledFrom([]string{"", "+"}).Draw(t, label+"-sign"), k)
	case "neg-zero":
		if n.Sign() == 0 {
			l.Text = "-0"
		} else {
			l.Text = n.String()
			sp = "plain"
		}
	case "big-exponent":
		// m.d e+1 : 12 -> 1.2e1
		s := n.String()
		neg := strings.HasPrefix(s, "-")
		s = strings.TrimPrefix(s, "-")

		if len(s) >= 2 {
			l.Text = fmt.Sprintf("%s.%se%d", s[:1], s[1:], len(s)-1)
			if neg {
				l.Text = "-" + l.Text
			}
		} else {
			l.Text = n.String()
			sp = "plain"
		}
	default:
		l.Text = n.String()
	}

	l.Spelling = sp
	l.Canonical = sp == "plain"

	return l
}

// FracLit renders a non-integral number.
func FracLit(t *rapid.T, label string) Lit {
	whole := rapid.Int64Range(-300, 300).Draw(t, label+"-whole")
	text := rapid.SampledFrom([]string{"%d.5", "%d.25", "%de-1", "%d.000001", "%d.5e0"}).Draw(t, label+"-form")
	txt := fmt.Sprintf(text, whole)

	r, ok := new(big.Rat).SetString(txt)
	if !ok {
		panic("gen: bad fraction " + txt)
	}

	l := Lit{JSONKind: "number", Text: txt, Rat: r, Integral: r.IsInt(), Spelling: "fraction"}
	if l.Integral {
		l.Int = new(big.Int).Set(r.Num())
		l.Spelling = "exponent"
	}

	return l
}

// IntMeaning draws an integer meaning relative to the range of the target kind:
// boundaries +-k, small numbers, and random magnitudes up to 2^70.
func IntMeaning(t *rapid.T, kind int, label string) *big.Int {
	lo, hi, _, ok := IntRangeOf(kind)
	bounds := []*big.Int{big.NewInt(0)}

	if ok {
		bounds = append(bounds, big.NewInt(lo), new(big.Int).SetUint64(hi))
	}

	for _, b := range []int64{-1 << 7, 1<<7 - 1, 1<<8 - 1, -1 << 15, 1<<15 - 1, 1<<16 - 1, -1 << 31, 1<<31 - 1, 1<<32 - 1, -1 << 63, 1<<63 - 1} {
		bounds = append(bounds, big.NewInt(b))
	}

	bounds = append(bounds, new(big.Int).SetUint64(1<<64-1))

	switch rapid.IntRange(0, 5).Draw(t, label+"-cls") {
	case 0, 1, 2:
		b := bounds[rapid.IntRange(0, len(bounds)-1).Draw(t, label+"-bound")]
		if rapid.IntRange(0, 2).Draw(t, label+"-ownbound") > 0 && ok {
			b = bounds[rapid.IntRange(0, 2).Draw(t, label+"-own")]
		}

		k := rapid.Int64Range(-3, 3).Draw(t, label+"-k")

		return new(big.Int).Add(b, big.NewInt(k))
	case 3:
		return big.NewInt(rapid.Int64Range(-300, 300).Draw(t, label+"-small"))
	case 4:
		// wrap candidates: an in-range value plus a multiple of 2^width
		w := rapid.SampledFrom([]uint{8, 16, 32, 64}).Draw(t, label+"-w")
		base := big.NewInt(rapid.Int64Range(-130, 300).Draw(t, label+"-base"))
		m := big.NewInt(rapid.Int64Range(-2, 2).Draw(t, label+"-mult"))

		return base.Add(base, m.Mul(m, new(big.Int).Lsh(big.NewInt(1), w)))
	default:
		bits := rapid.UintRange(0, 70).Draw(t, label+"-bits")
		n := new(big.Int).Lsh(big.NewInt(1), bits)
		n.Sub(n, big.NewInt(rapid.Int64Range(0, 1000).Draw(t, label+"-sub")))

		if rapid.Bool().Draw(t, label+"-neg") {
			n.Neg(n)
		}

		return n
	}
}

// StringLit renders a string meaning.
func StringLit(t *rapid.T, s string, label string) Lit {
	txt, style := JSONString(t, s, label)
	l := Lit{JSONKind: "string", Text: txt, Str: s, Spelling: style, Canonical: style == "minimal"}
	l.Bytes, l.HasBytes = LenientBase64(s)

	return l
}

// TimeLit renders an instant as an RFC 3339 string in one of several spellings.
func TimeLit(t *rapid.T, label string) Lit {
	tm := Time(t, label)

	// RFC 3339 also has a year 0000; written in the machine's zone, half an
	// hour after it began, it is in year -1 once converted to UTC.
	if rapid.IntRange(0, 39).Draw(t, label+"-year0") == 0 {
		tm = time.Date(0, 1, 1, 0, 30, 0, 0, rapid.SampledFrom([]*time.Location{time.Local, time.UTC, time.FixedZone("", 3600)}).Draw(t, label+"-year0-zone"))
	}

	_, off := tm.Zone()
	offMin := off / 60

	digits := rapid.SampledFrom([]int{0, 0, 1, 3, 6, 9, 9, 12}).Draw(t, label+"-digits")
	ns := tm.Nanosecond()

	frac := ""
	trunc := false

	switch {
	case digits == 0:
		tm = tm.Add(-time.Duration(ns))
	case digits <= 9:
		// keep only `digits` digits of the fraction
		scale := 1
		for i := 0; i < 9-digits; i++ {
			scale *= 10
		}

		kept := ns / scale * scale
		tm = tm.Add(-time.Duration(ns - kept))
		frac = "." + fmt.Sprintf("%09d", kept)[:digits]
	default:
		frac = "." + fmt.Sprintf("%09d", ns) + "123"
		trunc = true
	}

	zone := ""
	zsp := "offset"

	switch {
	case offMin == 0:
		zone = rapid.SampledFrom([]string{"Z", "Z", "+00:00", "-00:00"}).Draw(t, label+"-zero")
		zsp = "zero:" + zone
	default:
		sign := "+"
		m := offMin

		if m < 0 {
			sign = "-"
			m = -m
		}

		zone = fmt.Sprintf("%s%02d:%02d", sign, m/60, m%60)
	}

	sep := rapid.SampledFrom([]string{"T", "T", "T", "T", "t", " "}).Draw(t, label+"-sep")
	if zone == "Z" && sep == "t" {
		zone = "z"
	}

	y, mo, d := tm.Date()
	h, mi, s := tm.Clock()
	txt := fmt.Sprintf("%04d-%02d-%02d%s%02d:%02d:%02d%s%s", y, int(mo), d, sep, h, mi, s, frac, zone)

	l := Lit{
		JSONKind: "string", Text: `"` + txt + `"`, Str: txt, HasInstant: true, Instant: tm, TruncNanos: trunc,
		Spelling:  fmt.Sprintf("time/sep=%q/digits=%d/%s", sep, digits, zsp),
		Canonical: sep == "T" && digits <= 9 && zone != "+00:00" && zone != "-00:00" && zone != "z",
	}
	l.Bytes, l.HasBytes = LenientBase64(txt)

	return l
}

// BytesLit renders a byte string as base64 text in one of several spellings.
func BytesLit(t *rapid.T, label string) Lit {
	b := Bytes(t, label)
	sp := rapid.SampledFrom([]string{"std", "std", "std", "raw-std", "url", "newline", "dirty-trailing-bits"}).Draw(t, label+"-spelling")

	var (
		txt  string
		json string
	)

	switch sp {
	case "raw-std":
		txt = base64.RawStdEncoding.EncodeToString(b)
	case "url":
		txt = base64.URLEncoding.EncodeToString(b)
	case "newline":
		txt = base64.StdEncoding.EncodeToString(b)
		if len(txt) >= 4 {
			txt = txt[:4] + "\n" + txt[4:]
		}
	case "dirty-trailing-bits":
		txt = base64.StdEncoding.EncodeToString(b)
		if strings.HasSuffix(txt, "==") {
			// Set the unused low bits of the last symbol: "QQ==" -> "QR==".
			const alpha = "ABCDEFGHIJKLMNOPQRSTUVWXYZabcdefghijklmnopqrstuvwxyz0123456789+/"

			i := len(txt) - 3
			v := strings.IndexByte(alpha, txt[i])
			txt = txt[:i] + string(alpha[v|1]) + txt[i+1:]
		}
	default:
		txt = base64.StdEncoding.EncodeToString(b)
	}

	json = `"` + strings.ReplaceAll(txt, "\n", `\n`) + `"`

	l := Lit{JSONKind: "string", Text: json, Str: txt, Spelling: "base64/" + sp, Canonical: sp == "std", HasBytes: true, Bytes: b}

	if got, ok := LenientBase64(txt); !ok || string(got) != string(b) {
		panic(fmt.Sprintf("gen: lenient base64 reference disagrees on %q: %v %x vs %x", txt, ok, got, b))
	}

	return l
}

// LenientBase64 is the harness' reference reading of base64 text: standard or
// URL alphabet, padded or not, CR/LF ignored, unused trailing bits ignored.
func LenientBase64(s string) ([]byte, bool) {
	if !utf8.ValidString(s) {
		return nil, false
	}

	vals := []byte{}
	pad := 0

	for i := 0; i < len(s); i++ {
		c := s[i]

		switch {
		case c == '\r' || c == '\n':
			continue
		case c == '=':
			pad++
			continue
		}

		if pad > 0 {
			return nil, false // data after padding
		}

		switch {
		case c >= 'A' && c <= 'Z':
			vals = append(vals, c-'A')
		case c >= 'a' && c <= 'z':
			vals = append(vals, c-'a'+26)
		case c >= '0' && c <= '9':
			vals = append(vals, c-'0'+52)
		case c == '+' || c == '-':
			vals = append(vals, 62)
		case c == '/' || c == '_':
			vals = append(vals, 63)
		default:
			return nil, false
		}
	}

	if len(vals)%4 == 1 || pad > 2 || (pad > 0 && (len(vals)+pad)%4 != 0) {
		return nil, false
	}

	out := make([]byte, 0, len(vals)*6/8)

	var (
		acc  uint
		bits uint
	)

	for _, v := range vals {
		acc = acc<<6 | uint(v)
		bits += 6

		if bits >= 8 {
			bits -= 8
			out = append(out, byte(acc>>bits))
			acc &= (1 << bits) - 1
		}
	}

	return out, true
}

// PlainLit draws a literal in its plainest spelling that every kind of the
// attribute's family accepts: a string, a boolean, a time of four-digit year
// in RFC 3339 with an upper-case T, padded standard base64, an integer between
// 0 and 100; null one time in five when the attribute is nullable.
func PlainLit(t *rapid.T, attr jsonapi.Attr, label string) Lit {
	if attr.Nullable && rapid.IntRange(0, 4).Draw(t, label+"-plain-null") == 0 {
		return Lit{JSONKind: "null", Text: "null", Spelling: "null", Canonical: true}
	}

	switch attr.Type {
	case jsonapi.AttrTypeString:
		s := rapid.SampledFrom([]string{"", "a", "x y", "é€", "0", "null"}).Draw(t, label+"-plain-s")
		l := Lit{JSONKind: "string", Text: QuoteJSON(s), Str: s, Spelling: "minimal", Canonical: true}
		l.Bytes, l.HasBytes = LenientBase64(s)

		return l
	case jsonapi.AttrTypeBool:
		b := rapid.Bool().Draw(t, label+"-plain-b")
		return Lit{JSONKind: "bool", Text: fmt.Sprint(b), Bool: b, Spelling: "bool", Canonical: true}
	case jsonapi.AttrTypeTime:
		tm := time.Date(rapid.IntRange(1970, 2100).Draw(t, label+"-plain-year"), 3, 4, 5, 6, 7, rapid.SampledFrom([]int{0, 500000000, 123456789}).Draw(t, label+"-plain-ns"),
			rapid.SampledFrom([]*time.Location{time.UTC, time.FixedZone("", 3600), time.FixedZone("", -12600)}).Draw(t, label+"-plain-zone"))
		txt := tm.Format(time.RFC3339Nano)
		l := Lit{JSONKind: "string", Text: `"` + txt + `"`, Str: txt, Spelling: "rfc3339nano", Canonical: true, HasInstant: true, Instant: tm}
		l.Bytes, l.HasBytes = LenientBase64(txt)

		return l
	case jsonapi.AttrTypeBytes:
		b := []byte(rapid.SampledFrom([]string{"", "a", "\x00\xff", "hello, world", "\xfb\xef\xbe"}).Draw(t, label+"-plain-y"))
		txt := base64.StdEncoding.EncodeToString(b)

		return Lit{JSONKind: "string", Text: `"` + txt + `"`, Str: txt, Spelling: "base64/std", Canonical: true, HasBytes: true, Bytes: b}
	default:
		n := big.NewInt(int64(rapid.IntRange(0, 100).Draw(t, label+"-plain-n")))
		return Lit{JSONKind: "number", Rat: new(big.Rat).SetInt(n), Integral: true, Int: n, Text: n.String(), Spelling: "plain", Canonical: true}
	}
}

// AnyLit draws a literal for an attribute of the given kind: mostly of the
// JSON kind the attribute expects (in varied spellings), otherwise ill-typed.
func AnyLit(t *rapid.T, attr jsonapi.Attr, label string, illPerTen int) Lit {
	cls := rapid.IntRange(0, 9).Draw(t, label+"-cls")

	if cls >= illPerTen { // well-kinded for the attribute
		switch attr.Type {
		case jsonapi.AttrTypeString:
			return StringLit(t, HostileString(t, label+"-s"), label)
		case jsonapi.AttrTypeBool:
			b := rapid.Bool().Draw(t, label+"-b")
			return Lit{JSONKind: "bool", Text: fmt.Sprint(b), Bool: b, Spelling: "bool", Canonical: true}
		case jsonapi.AttrTypeTime:
			return TimeLit(t, label+"-t")
		case jsonapi.AttrTypeBytes:
			return BytesLit(t, label+"-y")
		default:
			if rapid.IntRange(0, 7).Draw(t, label+"-frac") == 0 {
				return FracLit(t, label+"-f")
			}

			return IntLit(t, IntMeaning(t, attr.Type, label+"-n"), label+"-n")
		}
	}

	switch rapid.IntRange(0, 8).Draw(t, label+"-ill") {
	case 0, 1:
		return Lit{JSONKind: "null", Text: "null", Spelling: "null", Canonical: true}
	case 2:
		b := rapid.Bool().Draw(t, label+"-b")
		return Lit{JSONKind: "bool", Text: fmt.Sprint(b), Bool: b, Spelling: "bool", Canonical: true}
	case 3:
		return IntLit(t, IntMeaning(t, jsonapi.AttrTypeInt16, label+"-n"), label+"-n")
	case 4:
		// a string that looks like a number
		n := IntMeaning(t, jsonapi.AttrTypeInt8, label+"-n")
		return StringLit(t, n.String(), label)
	case 5:
		return StringLit(t, HostileString(t, label+"-s"), label)
	case 6:
		return TimeLit(t, label+"-t")
	case 7:
		return Lit{JSONKind: "array", Text: rapid.SampledFrom([]string{"[]", "[1]", `["a"]`, "[null]"}).Draw(t, label+"-arr"), Spelling: "array"}
	default:
		return Lit{JSONKind: "object", Text: rapid.SampledFrom([]string{"{}", `{"a":1}`, `{"id":"1","type":"t"}`}).Draw(t, label+"-obj"), Spelling: "object"}
	}
}

package gen

import (
	"fmt"
	"reflect"
	"sort"
	"strings"

	"github.com/mfcochauxlaberge/jsonapi"
	"pgregory.net/rapid"
)

// ResModel pairs a library resource with the harness' own record of what it
// holds (taken when it was filled, before any library call could touch it).
type ResModel struct {
	TS   *TypeSpec
	Vals map[string]any // "id" and every field, deep copies
	Res  jsonapi.Resource
}

// ID returns the modelled ID.
func (m ResModel) ID() string { return m.Vals["id"].(string) }

func (m ResModel) String() string {
	return fmt.Sprintf("%s%s", m.TS.Name, ShowVals(m.Vals))
}

// DocCase is a generated document, the URL it is marshaled with, and the model
// of both.
type DocCase struct {
	SS        *SchemaSpec
	Doc       *jsonapi.Document
	URL       *jsonapi.URL
	DataKind  string // nil, resource, resources, softcol, wrapcol, identifier, identifiers
	Primary   []ResModel
	Idents    []jsonapi.Identifier
	Included  []ResModel
	Selection map[string][]string
	RelData   map[string][]string
	Meta      map[string]any
	Errors    []jsonapi.Error
	PrePath   string
}

// IsList reports whether the primary data is a list.
func (c *DocCase) IsList() bool {
	switch c.DataKind {
	case "resources", "softcol", "wrapcol", "identifiers":
		return true
	}

	return false
}

func (c *DocCase) String() string {
	var b strings.Builder

	fmt.Fprintf(&b, "%s\ndata(%s)=[", c.SS, c.DataKind)

	for _, m := range c.Primary {
		b.WriteString(m.String() + "; ")
	}

	for _, id := range c.Idents {
		fmt.Fprintf(&b, "ident{%q %q}; ", id.Type, id.ID)
	}

	b.WriteString("]\nincluded=[")

	for _, m := range c.Included {
		b.WriteString(m.String() + "; ")
	}

	fmt.Fprintf(&b, "]\nselection=%s reldata=%s prepath=%q meta=%s errors=%d",
		showStrLists(c.Selection), showStrLists(c.RelData), c.PrePath, ShowJSONish(c.Meta), len(c.Errors))

	for _, e := range c.Errors {
		fmt.Fprintf(&b, " err{%q %q %q %q %q links=%v source=%s meta=%s}", e.ID, e.Code, e.Status, e.Title, e.Detail,
			e.Links, ShowJSONish(e.Source), ShowJSONish(map[string]any(e.Meta)))
	}

	return b.String()
}

func showStrLists(m map[string][]string) string {
	parts := []string{}
	for _, k := range SortedKeys(m) {
		parts = append(parts, fmt.Sprintf("%q:%q", k, m[k]))
	}

	return "{" + strings.Join(parts, " ") + "}"
}

// ShowJSONish renders generic JSON-model data deterministically.
func ShowJSONish(v any) string {
	switch x := v.(type) {
	case map[string]any:
		if x == nil {
			return "nil-map"
		}

		parts := []string{}
		for _, k := range SortedKeys(x) {
			parts = append(parts, fmt.Sprintf("%q:%s", k, ShowJSONish(x[k])))
		}

		return "{" + strings.Join(parts, ",") + "}"
	case []any:
		parts := []string{}
		for _, e := range x {
			parts = append(parts, ShowJSONish(e))
		}

		return "[" + strings.Join(parts, ",") + "]"
	case string:
		return fmt.Sprintf("%q", x)
	default:
		return fmt.Sprintf("%v", x)
	}
}

// JSONValue draws a value of the JSON data model as Go decodes it.
func JSONValue(t *rapid.T, label string, depth int) any {
	max := 6
	if depth <= 0 {
		max = 4
	}

	switch rapid.IntRange(0, max).Draw(t, label+"-kind") {
	case 0:
		return nil
	case 1:
		return rapid.Bool().Draw(t, label+"-b")
	case 2:
		// Strings that look like values of another kind must stay strings.
		if rapid.IntRange(0, 3).Draw(t, label+"-lookalike") == 0 {
			return rapid.SampledFrom([]string{
				"2024-03-01T12:00:00.000Z", "2024-03-01T12:00:00+00:00", "2024-03-01T12:00:00.10-07:00", "2024-03-01T12:00:00Z",
				"0001-01-01T00:00:00Z", "12", "1e3", "true", "null", "AAE=", "{}", "[]",
			}).Draw(t, label+"-like")
		}

		return HostileString(t, label+"-s")
	case 3:
		return float64(rapid.Int64Range(-(1<<53), 1<<53).Draw(t, label+"-i"))
	case 4:
		// (now and then a number beyond the 64-bit integers)
		if rapid.IntRange(0, 5).Draw(t, label+"-huge") == 0 {
			return rapid.SampledFrom([]float64{1e19, -1e19, 9223372036854775808, 18446744073709551615, 1.5e300, -9223372036854777856}).Draw(t, label+"-hugeval")
		}

		return float64(rapid.IntRange(-1000, 1000).Draw(t, label+"-f")) / 8
	case 5:
		n := rapid.IntRange(0, 3).Draw(t, label+"-n")
		l := make([]any, n)

		for i := range l {
			l[i] = JSONValue(t, label+"-e", depth-1)
		}

		return l
	default:
		return JSONObject(t, label+"-o", depth-1, 3)
	}
}

// JSONObject draws a JSON object with 0..maxKeys members.
func JSONObject(t *rapid.T, label string, depth, maxKeys int) map[string]any {
	n := rapid.IntRange(0, maxKeys).Draw(t, label+"-n")
	m := map[string]any{}

	for i := 0; i < n; i++ {
		k := rapid.SampledFrom([]string{"a", "b", "k", "", "x y", "é\"", "<&>"}).Draw(t, label+"-key")
		m[k] = JSONValue(t, label+"-v", depth)
	}

	return m
}

// ErrorObject draws an error object with any subset of its members set.
func ErrorObject(t *rapid.T, label string) jsonapi.Error {
	e := jsonapi.Error{}
	str := func(l string) string {
		if rapid.Bool().Draw(t, label+l+"-set") {
			return HostileString(t, label+l)
		}

		return ""
	}

	e.ID, e.Code, e.Status, e.Title, e.Detail = str("id"), str("code"), str("status"), str("title"), str("detail")

	// an HTTP status as a status usually is
	if rapid.IntRange(0, 2).Draw(t, label+"-httpstatus") == 0 {
		e.Status = rapid.SampledFrom([]string{"404", "503", "200", "400", "999", "0404"}).Draw(t, label+"-httpstatus-value")
	}

	switch rapid.IntRange(0, 2).Draw(t, label+"-links") {
	case 1:
		e.Links = map[string]string{}
	case 2:
		e.Links = map[string]string{"about": HostileString(t, label+"-about")}
		if rapid.Bool().Draw(t, label+"-l2") {
			e.Links["type"] = "t"
		}
	}

	switch rapid.IntRange(0, 2).Draw(t, label+"-source") {
	case 1:
		e.Source = map[string]any{}
	case 2:
		e.Source = JSONObject(t, label+"-src", 1, 2)
	}

	switch rapid.IntRange(0, 2).Draw(t, label+"-meta") {
	case 1:
		e.Meta = jsonapi.Meta{}
	case 2:
		e.Meta = jsonapi.Meta(JSONObject(t, label+"-m", 1, 2))
	}

	return e
}

// DocOpts tunes the document generator.
type DocOpts struct {
	Schema              SchemaOpts
	DistinctIncludedIDs bool // included resources have pairwise distinct IDs (C11)
	NoIncluded          bool // leave Included empty (C03 adds through Include)
	NoNarrow            bool // no soft resources on a trimmed type of the same name
	NoErrors            bool
	PlainSelection      bool // only absent / empty / subset selections (no unknown names, "id", duplicates)
	MixedWrapCol        bool // a WrapperCollection may receive wrappers of another struct type (Add accepts any *Wrapper)
}

// Selection draws a field selection entry for a type: ok=false means "no entry".
func Selection(t *rapid.T, ts *TypeSpec, label string, plain bool) ([]string, bool) {
	fields := ts.Fields()

	switch rapid.IntRange(0, 7).Draw(t, label+"-mode") {
	case 0:
		return nil, false
	case 1:
		return []string{}, true
	case 2, 3:
		return append([]string{}, fields...), true
	}

	sel := []string{}

	for _, f := range fields {
		if rapid.Bool().Draw(t, label+"-in") {
			sel = append(sel, f)
		}
	}

	if !plain {
		if rapid.IntRange(0, 3).Draw(t, label+"-unk") == 0 {
			sel = append(sel, rapid.SampledFrom([]string{"nope", "id", "type", "", "x", "full name", "\u00e9", "a+b", "a,b", "%41", "a&b"}).Draw(t, label+"-unkname"))
		}

		if len(sel) > 0 && rapid.IntRange(0, 4).Draw(t, label+"-dup") == 0 {
			sel = append(sel, sel[0])
		}
	}

	if len(sel) > 1 {
		sel = rapid.Permutation(sel).Draw(t, label+"-perm")
	}

	return sel, true
}

// collidingIDs returns the IDs which, for a resource of type t2, make
// "type then ID" or "ID then type" read the same as for (t1, id1).
func collidingIDs(t1, id1, t2 string) []string {
	out := []string{}
	add := func(id string) {
		if id != "" && id != id1 {
			out = append(out, id)
		}
	}

	if strings.HasSuffix(t1, t2) {
		add(id1 + t1[:len(t1)-len(t2)])
	}

	if x := strings.TrimSuffix(t2, t1); x != t2 && strings.HasSuffix(id1, x) {
		add(id1[:len(id1)-len(x)])
	}

	if strings.HasPrefix(t1, t2) {
		add(t1[len(t2):] + id1)
	}

	if x := strings.TrimPrefix(t2, t1); x != t2 && strings.HasPrefix(id1, x) {
		add(id1[len(x):])
	}

	return out
}

// swapPlaceholder is a field name no generated type uses.
const swapPlaceholder = "zz--swap--placeholder"

// SoftWithLateField draws a filled soft resource of the type (which must
// have a field) whose type was edited under it: while the values were set a
// placeholder stood in for one field; the type was then edited through its
// pointer (placeholder out, field in, the number of fields unchanged), so
// that field reads as its zero value - the documented behaviour of
// SoftResource for fields added to its type.
func SoftWithLateField(t *rapid.T, ts *TypeSpec, label string) (jsonapi.Resource, map[string]any) {
	typ := SoftTypeOf(ts)
	res := &jsonapi.SoftResource{Type: &typ}

	i := rapid.IntRange(0, len(ts.Attrs)+len(ts.Rels)-1).Draw(t, label+"-late")
	if i >= len(ts.Attrs) && ts.RelKeys != nil {
		i = 0
	}

	if i < len(ts.Attrs) {
		a := ts.Attrs[i]

		delete(typ.Attrs, a.Name)
		typ.Attrs[swapPlaceholder] = jsonapi.Attr{Name: swapPlaceholder, Type: jsonapi.AttrTypeString}

		vals := FillResource(t, res, ts, label)

		res.Set(swapPlaceholder, "placeholder")
		typ.RemoveAttr(swapPlaceholder)
		typ.Attrs[a.Name] = a
		vals[a.Name] = ZeroValue(a)

		return res, vals
	}

	if len(ts.Attrs) == 0 && ts.RelKeys != nil {
		return res, FillResource(t, res, ts, label)
	}

	r := ts.Rels[i-len(ts.Attrs)]

	delete(typ.Rels, r.FromName)
	typ.Rels[swapPlaceholder] = jsonapi.Rel{FromType: ts.Name, FromName: swapPlaceholder, ToType: ts.Name, ToOne: true}

	vals := FillResource(t, res, ts, label)

	res.Set(swapPlaceholder, "somebody")
	typ.RemoveRel(swapPlaceholder)
	typ.Rels[r.FromName] = r

	if r.ToOne {
		vals[r.FromName] = ""
	} else {
		vals[r.FromName] = []string{}
	}

	return res, vals
}

// Document draws a document case.
func Document(t *rapid.T, o DocOpts) *DocCase {
	c := &DocCase{
		Selection: map[string][]string{},
		RelData:   map[string][]string{},
	}
	c.SS = CoherentSchema(t, o.Schema)
	ss := c.SS

	usedIDs := map[string]bool{} // type + "\x00" + id
	usedPlainIDs := map[string]bool{}

	newRes := func(ts *TypeSpec, label string, soft bool) (ResModel, bool) {
		var res jsonapi.Resource

		var vals map[string]any

		switch {
		case soft && len(ts.Attrs)+len(ts.Rels) > 0 && rapid.IntRange(0, 3).Draw(t, label+"-swap") == 0:
			res, vals = SoftWithLateField(t, ts, label)
		case soft:
			typ := SoftTypeOf(ts)
			res = &jsonapi.SoftResource{Type: &typ}
		case rapid.Bool().Draw(t, label+"-viaNew"):
			typ := ss.Schema.GetType(ts.Name)
			res = typ.New()
		default:
			res = NewResource(ts)
		}

		if vals == nil {
			vals = FillResource(t, res, ts, label)
		}

		// A resource that is being created has no ID yet.
		if rapid.IntRange(0, 9).Draw(t, label+"-noid") == 0 {
			vals["id"] = ""
			res.Set("id", "")
		}

		key := ts.Name + "\x00" + vals["id"].(string)

		if usedIDs[key] {
			return ResModel{}, false
		}

		usedIDs[key] = true

		return ResModel{TS: ts, Vals: vals, Res: res}, true
	}

	pick := func(label string) *TypeSpec {
		return &ss.Types[rapid.IntRange(0, len(ss.Types)-1).Draw(t, label)]
	}

	// narrowed draws, once in a while, a soft resource whose own type has the
	// schema type's name but only some of its fields (what partial
	// unmarshaling returns, or a soft resource whose type was trimmed).
	narrowed := func(ts *TypeSpec, label string) (ResModel, bool) {
		if o.NoNarrow || len(ts.Attrs)+len(ts.Rels) < 2 || rapid.IntRange(0, 5).Draw(t, label+"-narrow") != 0 {
			return newRes(ts, label, false)
		}

		nts := &TypeSpec{Name: ts.Name}

		for _, a := range ts.Attrs {
			if rapid.Bool().Draw(t, label+"-keepattr") {
				nts.Attrs = append(nts.Attrs, a)
			}
		}

		for _, r := range ts.Rels {
			if rapid.Bool().Draw(t, label+"-keeprel") {
				nts.Rels = append(nts.Rels, r)
			}
		}

		return newRes(nts, label, true)
	}

	structTypes := []*TypeSpec{}

	for i := range ss.Types {
		if ss.Types[i].Struct {
			structTypes = append(structTypes, &ss.Types[i])
		}
	}

	kind := rapid.SampledFrom([]string{"nil", "resource", "resource", "resources", "resources", "softcol", "wrapcol", "identifier", "identifiers"}).Draw(t, "datakind")
	if kind == "wrapcol" && len(structTypes) == 0 {
		kind = "resources"
	}

	c.DataKind = kind
	c.Doc = &jsonapi.Document{}

	nmem := 0
	if c.IsList() {
		nmem = rapid.IntRange(0, Upto(t, "nmembers", 5)).Draw(t, "nmembers")

		// Now and then a collection of a size at which an implementation may
		// switch strategy (batches, indexes, worker pools).
		if rapid.IntRange(0, 24).Draw(t, "manymembers") == 0 {
			// (sizes around the powers of two, where work may be split up
			// or a fixed buffer ends)
			nmem = rapid.SampledFrom([]int{30, 31, 32, 33, 47, 48, 49, 50, 63, 64, 65, 66, 67, 70, 97, 130}).Draw(t, "nmembers-many")
		}
	}

	switch kind {
	case "resource":
		m, _ := narrowed(pick("ptype"), "p")
		c.Primary = []ResModel{m}
		c.Doc.Data = m.Res
	case "resources":
		col := &jsonapi.Resources{}

		sameType := rapid.Bool().Draw(t, "sametype")
		ts := pick("ptype")

		for i := 0; i < nmem; i++ {
			if !sameType {
				ts = pick("ptype")
			}

			if m, ok := narrowed(ts, fmt.Sprintf("p%d", i)); ok {
				c.Primary = append(c.Primary, m)
				col.Add(m.Res)
			}
		}

		c.Doc.Data = col
	case "softcol":
		ts := pick("ptype")
		typ := SoftTypeOf(ts)
		col := &jsonapi.SoftCollection{}

		if nmem == 0 && rapid.Bool().Draw(t, "untyped") {
			// An empty collection whose type was never set is a valid
			// (empty) primary data too.
			c.Doc.Data = col
			break
		}

		col.SetType(&typ)

		for i := 0; i < nmem; i++ {
			if m, ok := newRes(ts, fmt.Sprintf("p%d", i), rapid.Bool().Draw(t, "softmember")); ok {
				col.Add(m.Res)
				// The collection stores a snapshot; the model follows the stored element.
				m.Res = col.At(col.Len() - 1)
				c.Primary = append(c.Primary, m)
			}
		}

		// The collection's type may be edited after the members were added:
		// an attribute that is taken out and put back reads as its zero
		// value in every member.
		if len(ts.Attrs) > 0 && rapid.IntRange(0, 3).Draw(t, "colswap") == 0 {
			a := ts.Attrs[rapid.IntRange(0, len(ts.Attrs)-1).Draw(t, "colswapattr")]

			typ.RemoveAttr(a.Name)
			typ.Attrs[swapPlaceholder] = jsonapi.Attr{Name: swapPlaceholder, Type: jsonapi.AttrTypeString}

			for i := 0; i < col.Len(); i++ {
				col.At(i).Get(a.Name)
			}

			typ.RemoveAttr(swapPlaceholder)
			typ.Attrs[a.Name] = a

			for i := range c.Primary {
				c.Primary[i].Vals[a.Name] = ZeroValue(a)
			}
		}

		c.Doc.Data = col
	case "wrapcol":
		ts := structTypes[rapid.IntRange(0, len(structTypes)-1).Draw(t, "wtype")]
		col := jsonapi.WrapCollection(jsonapi.Wrap(reflect.New(ts.GoType).Interface()))

		colType := ts

		for i := 0; i < nmem; i++ {
			ts := colType
			if o.MixedWrapCol && len(structTypes) > 1 && rapid.IntRange(0, 2).Draw(t, "mixedwrap") == 0 {
				ts = structTypes[rapid.IntRange(0, len(structTypes)-1).Draw(t, "wmember")]
			}

			res := jsonapi.Wrap(reflect.New(ts.GoType).Interface())
			vals := FillResource(t, res, ts, fmt.Sprintf("p%d", i))
			key := ts.Name + "\x00" + vals["id"].(string)

			if usedIDs[key] {
				continue
			}

			usedIDs[key] = true
			c.Primary = append(c.Primary, ResModel{TS: ts, Vals: vals, Res: res})
			col.Add(res)
		}

		c.Doc.Data = col
	case "identifier":
		id := jsonapi.Identifier{Type: pick("itype").Name, ID: IDString(t, "iid", false)}
		c.Idents = []jsonapi.Identifier{id}
		c.Doc.Data = id
	case "identifiers":
		ids := jsonapi.Identifiers{}
		for i := 0; i < nmem; i++ {
			ids = append(ids, jsonapi.Identifier{Type: pick("itype").Name, ID: IDString(t, "iid", false)})
		}

		c.Idents = append([]jsonapi.Identifier{}, ids...) // the model keeps its own copy (the library may reorder doc.Data in place)
		c.Doc.Data = ids
	}

	for _, m := range c.Primary {
		usedPlainIDs[m.ID()] = true
	}

	// Included.
	if !o.NoIncluded && rapid.IntRange(0, 2).Draw(t, "hasincluded") > 0 {
		n := rapid.IntRange(1, Upto(t, "nincluded", 5)).Draw(t, "nincluded")

		// Now and then a long list (as for primary data).
		if rapid.IntRange(0, 24).Draw(t, "manyincluded") == 0 {
			n = rapid.SampledFrom([]int{30, 31, 32, 33, 34, 47, 49, 63, 64, 65, 66, 70}).Draw(t, "nincluded-many")
		}
		for i := 0; i < n; i++ {
			m, ok := narrowed(pick("inctype"), fmt.Sprintf("inc%d", i))
			if !ok {
				continue
			}

			// When the type names allow it, an ID is sometimes chosen so
			// that type and ID, written one after the other in either order,
			// read the same as for an earlier included resource.
			if len(c.Included) > 0 && rapid.IntRange(0, 2).Draw(t, "inc-collide") == 0 {
				e := c.Included[rapid.IntRange(0, len(c.Included)-1).Draw(t, "inc-collide-with")]

				for _, id := range collidingIDs(e.TS.Name, e.ID(), m.TS.Name) {
					if key := m.TS.Name + "\x00" + id; !usedIDs[key] && !usedPlainIDs[id] {
						delete(usedIDs, m.TS.Name+"\x00"+m.ID())
						usedIDs[key] = true
						m.Vals["id"] = id
						m.Res.Set("id", id)

						break
					}
				}
			}

			if o.DistinctIncludedIDs && usedPlainIDs[m.ID()] {
				continue
			}

			usedPlainIDs[m.ID()] = true
			c.Included = append(c.Included, m)
			c.Doc.Included = append(c.Doc.Included, m.Res)
		}
	}

	// A document that went through UnmarshalDocument has an empty, non-nil
	// Resources map; a hand-built one may have anything there.
	switch rapid.IntRange(0, 5).Draw(t, "docresources") {
	case 0:
		c.Doc.Resources = map[string]map[string]struct{}{}
	case 1:
		c.Doc.Resources = map[string]map[string]struct{}{"zz-unrelated": {"1": {}}}
	}

	// Meta.
	switch rapid.IntRange(0, 3).Draw(t, "metakind") {
	case 1:
		c.Meta = map[string]any{}
		c.Doc.Meta = jsonapi.Meta{}
	case 2, 3:
		c.Meta = JSONObject(t, "meta", 2, 3)
		c.Doc.Meta = jsonapi.Meta(c.Meta)
	}

	// Errors.
	if !o.NoErrors && rapid.IntRange(0, 4).Draw(t, "haserrors") == 0 {
		n := rapid.IntRange(1, 3).Draw(t, "nerrors")
		for i := 0; i < n; i++ {
			c.Errors = append(c.Errors, ErrorObject(t, fmt.Sprintf("err%d", i)))
		}

		c.Doc.Errors = append([]jsonapi.Error{}, c.Errors...)
	}

	c.PrePath = rapid.SampledFrom([]string{"", "/", "https://h", "https://h/api/", "http://x/a b", "/p\"q", "https://h/my%20api", "/100%/", "/%s/%d%v", "https://h/api//", "//", "https://h/API/v2", "/Services/É"}).Draw(t, "prepath")
	c.Doc.PrePath = c.PrePath

	// Selection and relationship data per type.
	for i := range ss.Types {
		ts := &ss.Types[i]
		if sel, ok := Selection(t, ts, "sel-"+ts.Name, o.PlainSelection); ok {
			c.Selection[ts.Name] = sel
		}

		switch rapid.IntRange(0, 3).Draw(t, "rd-"+ts.Name) {
		case 0:
		case 1:
			rd := []string{}
			for _, r := range ts.Rels {
				rd = append(rd, r.FromName)
			}

			c.RelData[ts.Name] = rd
		default:
			rd := []string{}

			for _, r := range ts.Rels {
				if rapid.Bool().Draw(t, "rd-in") {
					rd = append(rd, r.FromName)
				}
			}

			if !o.PlainSelection && rapid.IntRange(0, 3).Draw(t, "rd-unk") == 0 {
				rd = append(rd, "nope")
			}

			if len(rd) > 1 {
				rd = rapid.Permutation(rd).Draw(t, "rd-perm")
			}

			c.RelData[ts.Name] = rd
		}
	}

	c.Doc.RelData = CopyStrLists(c.RelData)

	// URL literal.
	u := &jsonapi.URL{Params: &jsonapi.Params{Fields: CopyStrLists(c.Selection)}}

	switch {
	case c.IsList():
		tn := ss.Types[0].Name
		if len(c.Primary) > 0 {
			tn = c.Primary[0].TS.Name
		} else if len(c.Idents) > 0 {
			tn = c.Idents[0].Type
		}

		u.Fragments = []string{tn}
		u.ResType = tn
		u.IsCol = true

		if rapid.Bool().Draw(t, "urlpage") {
			// Any subset of size / number and of a handful of other page
			// parameters (they all end up in the self link).
			u.Params.Page = map[string]any{}

			if rapid.IntRange(0, 3).Draw(t, "psize-set") > 0 {
				u.Params.Page["size"] = rapid.IntRange(0, 50).Draw(t, "psize")
			}

			if rapid.IntRange(0, 3).Draw(t, "pnum-set") > 0 {
				u.Params.Page["number"] = rapid.IntRange(0, 9).Draw(t, "pnum")
			}

			// (a URL filled from decoded JSON holds numbers as float64)
			if rapid.IntRange(0, 5).Draw(t, "pfloat") == 0 {
				u.Params.Page[rapid.SampledFrom([]string{"size", "number", "offset"}).Draw(t, "pfloat-key")] = rapid.SampledFrom([]float64{25, 0, 2000000, 1.5, -3}).Draw(t, "pfloat-val")
			}

			for _, k := range []string{"offset", "after", "limit", "cursor", "a b", "Z"} {
				if rapid.IntRange(0, 3).Draw(t, "pother-"+k) == 0 {
					u.Params.Page[k] = rapid.SampledFrom([]string{"abc", "20", "x y&z", ""}).Draw(t, "pother-val")
				}
			}
		}

		if rapid.Bool().Draw(t, "urlsort") {
			u.Params.SortingRules = []string{"id"}
		}

		// A filter (it ends up in the self link): a label, or a tree whose
		// operands are in no particular order.
		switch rapid.IntRange(0, 5).Draw(t, "urlfilter") {
		case 0:
			if l := HostileString(t, "urllabel"); l != "" {
				u.Params.FilterLabel = l
			}
		case 1, 2:
			leaf := func(f, op string, v any) *jsonapi.Filter { return &jsonapi.Filter{Field: f, Op: op, Val: v} }
			inner := []*jsonapi.Filter{leaf("c", "=", "2"), leaf("c", "=", "1"), leaf("a", "<", "m")}
			outer := []*jsonapi.Filter{leaf("b", "=", "z"), leaf("a", "!=", "y"), {Op: "or", Val: rapid.Permutation(inner).Draw(t, "urlfilter-inner")}, leaf("a", "in", []string{"q", "p"})}
			outer = rapid.Permutation(outer).Draw(t, "urlfilter-outer")
			u.Params.Filter = &jsonapi.Filter{Op: rapid.SampledFrom([]string{"and", "or"}).Draw(t, "urlfilter-op"), Val: outer[:rapid.IntRange(1, len(outer)).Draw(t, "urlfilter-n")]}
		}
		// A list may also be what a URL that is not a collection URL
		// answers with (the URL is the caller's business; marshaling reads
		// it and leaves it alone).
		if rapid.IntRange(0, 7).Draw(t, "list-noncol-url") == 0 {
			u.Fragments, u.ResID, u.IsCol = []string{tn, "x"}, "x", false
		}
	case len(c.Primary) == 1:
		u.Fragments = []string{c.Primary[0].TS.Name, c.Primary[0].ID()}
		u.ResType = c.Primary[0].TS.Name
		u.ResID = c.Primary[0].ID()

		// (the URL may be that of a resource of another type: what is
		// shown of a resource goes by the resource's own type)
		if len(ss.Types) > 1 && rapid.IntRange(0, 7).Draw(t, "url-othertype") == 0 {
			u.ResType = ss.Types[rapid.IntRange(0, len(ss.Types)-1).Draw(t, "url-othertype-which")].Name
			u.Fragments = []string{u.ResType, u.ResID}
		}
	case len(c.Idents) == 1:
		u.Fragments = []string{c.Idents[0].Type, c.Idents[0].ID}
		u.ResType = c.Idents[0].Type
		u.ResID = c.Idents[0].ID
	default:
		u.Fragments = []string{ss.Types[0].Name, "x"}
		u.ResType = ss.Types[0].Name
		u.ResID = "x"

		// No data (a meta-only or an error answer) may also be the answer to
		// a request for a collection.
		if rapid.Bool().Draw(t, "nodata-colurl") {
			u.Fragments, u.ResID, u.IsCol = u.Fragments[:1], "", true
		}
	}

	// The request may have asked for inclusions (whether or not the answer
	// carries any: an error answer does not).
	if rts := ss.Type(u.ResType); rts != nil && len(rts.Rels) > 0 && rapid.IntRange(0, 3).Draw(t, "urlinclude") == 0 {
		for i, n := 0, rapid.IntRange(1, 2).Draw(t, "urlinclude-n"); i < n; i++ {
			path := []jsonapi.Rel{rts.Rels[rapid.IntRange(0, len(rts.Rels)-1).Draw(t, "urlinclude-rel")]}

			if tts := ss.Type(path[0].ToType); tts != nil && len(tts.Rels) > 0 && rapid.Bool().Draw(t, "urlinclude-deeper") {
				path = append(path, tts.Rels[rapid.IntRange(0, len(tts.Rels)-1).Draw(t, "urlinclude-rel2")])
			}

			u.Params.Include = append(u.Params.Include, path)
		}
	}

	c.URL = u

	return c
}

// CopyStrLists deep-copies a map of string lists.
func CopyStrLists(m map[string][]string) map[string][]string {
	c := map[string][]string{}
	for k, v := range m {
		c[k] = append([]string{}, v...)
	}

	return c
}

// SelectedFields computes, from the model alone, which attributes and
// relationships of the type the selection exposes.
func (c *DocCase) SelectedFields(ts *TypeSpec) (attrs, rels []string) {
	sel := map[string]bool{}
	for _, f := range c.Selection[ts.Name] {
		sel[f] = true
	}

	for _, a := range ts.Attrs {
		if sel[a.Name] {
			attrs = append(attrs, a.Name)
		}
	}

	for _, r := range ts.Rels {
		if sel[r.FromName] {
			rels = append(rels, r.FromName)
		}
	}

	sort.Strings(attrs)
	sort.Strings(rels)

	return attrs, rels
}

// WantsRelData reports whether the document asks for the relationship's data.
func (c *DocCase) WantsRelData(ts *TypeSpec, rel string) bool {
	for _, n := range c.RelData[ts.Name] {
		if n == rel {
			return true
		}
	}

	return false
}

// Primary0Type returns the type of the first primary resource, or the type the
// URL names when the collection is empty.
func (c *DocCase) Primary0Type() *TypeSpec {
	if len(c.Primary) > 0 {
		return c.Primary[0].TS
	}

	if ts := c.SS.Type(c.URL.ResType); ts != nil {
		return ts
	}

	return &c.SS.Types[0]
}

package gen

import (
	"encoding/hex"
	"fmt"
	"math"
	"strconv"
	"strings"
	"time"

	"github.com/mfcochauxlaberge/jsonapi"
	"pgregory.net/rapid"
)

// Kinds lists the 14 base attribute kinds.
var Kinds = []int{
	jsonapi.AttrTypeString,
	jsonapi.AttrTypeInt, jsonapi.AttrTypeInt8, jsonapi.AttrTypeInt16, jsonapi.AttrTypeInt32, jsonapi.AttrTypeInt64,
	jsonapi.AttrTypeUint, jsonapi.AttrTypeUint8, jsonapi.AttrTypeUint16, jsonapi.AttrTypeUint32, jsonapi.AttrTypeUint64,
	jsonapi.AttrTypeBool, jsonapi.AttrTypeTime, jsonapi.AttrTypeBytes,
}

// KindName is the harness' own name table (independent of GetAttrTypeString).
func KindName(kind int, nullable bool) string {
	n := map[int]string{
		jsonapi.AttrTypeString: "string",
		jsonapi.AttrTypeInt:    "int", jsonapi.AttrTypeInt8: "int8", jsonapi.AttrTypeInt16: "int16",
		jsonapi.AttrTypeInt32: "int32", jsonapi.AttrTypeInt64: "int64",
		jsonapi.AttrTypeUint: "uint", jsonapi.AttrTypeUint8: "uint8", jsonapi.AttrTypeUint16: "uint16",
		jsonapi.AttrTypeUint32: "uint32", jsonapi.AttrTypeUint64: "uint64",
		jsonapi.AttrTypeBool: "bool", jsonapi.AttrTypeTime: "time", jsonapi.AttrTypeBytes: "bytes",
	}[kind]
	if n == "" {
		n = "invalid" + strconv.Itoa(kind)
	}

	if nullable {
		return "*" + n
	}

	return n
}

// IntRangeOf returns the inclusive range of an integer kind as (min, max, signed).
func IntRangeOf(kind int) (lo int64, hi uint64, signed bool, ok bool) {
	switch kind {
	case jsonapi.AttrTypeInt, jsonapi.AttrTypeInt64:
		return math.MinInt64, math.MaxInt64, true, true
	case jsonapi.AttrTypeInt8:
		return math.MinInt8, math.MaxInt8, true, true
	case jsonapi.AttrTypeInt16:
		return math.MinInt16, math.MaxInt16, true, true
	case jsonapi.AttrTypeInt32:
		return math.MinInt32, math.MaxInt32, true, true
	case jsonapi.AttrTypeUint, jsonapi.AttrTypeUint64:
		return 0, math.MaxUint64, false, true
	case jsonapi.AttrTypeUint8:
		return 0, math.MaxUint8, false, true
	case jsonapi.AttrTypeUint16:
		return 0, math.MaxUint16, false, true
	case jsonapi.AttrTypeUint32:
		return 0, math.MaxUint32, false, true
	}

	return 0, 0, false, false
}

func drawInt64(t *rapid.T, label string, lo, hi int64) int64 {
	switch rapid.IntRange(0, 5).Draw(t, label+"-cls") {
	case 0:
		c := []int64{lo, lo + 1, hi, hi - 1, 0, 1, -1, 2, 1 << 53, 1<<53 + 1, -(1 << 53) - 1, 127, 128, 255, 256, -128, -129, 32767, 32768, 65535, 65536}
		v := rapid.SampledFrom(c).Draw(t, label+"-b")

		if v < lo || v > hi {
			v = lo
		}

		return v
	case 1:
		return rapid.Int64Range(max64(lo, -3), min64(hi, 3)).Draw(t, label+"-s")
	default:
		return rapid.Int64Range(lo, hi).Draw(t, label)
	}
}

func drawUint64(t *rapid.T, label string, hi uint64) uint64 {
	switch rapid.IntRange(0, 5).Draw(t, label+"-cls") {
	case 0:
		c := []uint64{0, 1, hi, hi - 1, hi/2 + 1, hi / 2, 1 << 53, 1<<53 + 1, 255, 256, 65535, 65536, 1<<63 + 1, 1 << 63, 1<<63 - 1}
		v := rapid.SampledFrom(c).Draw(t, label+"-b")

		if v > hi {
			v = hi
		}

		return v
	case 1:
		return rapid.Uint64Range(0, min(hi, 3)).Draw(t, label+"-s")
	default:
		return rapid.Uint64Range(0, hi).Draw(t, label)
	}
}

func max64(a, b int64) int64 {
	if a > b {
		return a
	}

	return b
}

func min64(a, b int64) int64 {
	if a < b {
		return a
	}

	return b
}

// The machine's zone, as far as the harness is concerned, is two hours east
// of Greenwich: a time in time.Local then prints differently from the same
// instant in UTC, on whatever machine the checks run.
func init() {
	time.Local = time.FixedZone("Local", 2*60*60)
}

// Time draws an instant representable in RFC 3339: local year 1..9999,
// nanosecond precision, UTC, time.Local or a fixed zone with a whole-minute
// offset within +-23:59, no monotonic reading.
func Time(t *rapid.T, label string) time.Time {
	// Landmark instants: the zero time (in UTC and written in another zone),
	// the Unix epoch, the last representable nanosecond, the ends of the
	// range written in a zone that puts their UTC year outside of it.
	if rapid.IntRange(0, 11).Draw(t, label+"-landmark") == 0 {
		return rapid.SampledFrom([]time.Time{
			{},
			time.Time{}.In(time.FixedZone("", 330*60)),
			time.Unix(0, 0).UTC(),
			time.Unix(0, 0).In(time.FixedZone("", -60*60)),
			time.Date(9999, 12, 31, 23, 59, 59, 999999999, time.UTC),
			time.Date(1, 1, 1, 0, 0, 0, 1, time.UTC),
			// Local year 9999 / 1 whose UTC year is 10000 / 0: fine as
			// written, out of range once converted to UTC.
			time.Date(9999, 12, 31, 23, 30, 0, 0, time.FixedZone("", -60*60)),
			time.Date(1, 1, 1, 0, 30, 0, 0, time.FixedZone("", 60*60)),
		}).Draw(t, label+"-landmark-instant")
	}

	year := rapid.SampledFrom([]int{1, 2, 1969, 1970, 1999, 2000, 2024, 9998, 9999}).Draw(t, label+"-y")
	if rapid.Bool().Draw(t, label+"-anyyear") {
		year = rapid.IntRange(1, 9999).Draw(t, label+"-year")
	}

	month := rapid.IntRange(1, 12).Draw(t, label+"-mo")
	day := rapid.IntRange(1, 28).Draw(t, label+"-d")
	hour := rapid.IntRange(0, 23).Draw(t, label+"-h")
	minute := rapid.IntRange(0, 59).Draw(t, label+"-mi")
	sec := rapid.IntRange(0, 59).Draw(t, label+"-s")

	nsec := 0

	switch rapid.IntRange(0, 3).Draw(t, label+"-ncls") {
	case 1:
		nsec = rapid.SampledFrom([]int{1, 999999999, 500000000, 1000, 1000000, 123456789, 100}).Draw(t, label+"-nb")
	case 2:
		nsec = rapid.IntRange(0, 999999999).Draw(t, label+"-n")
	}

	loc := time.UTC

	switch rapid.IntRange(0, 3).Draw(t, label+"-zcls") {
	case 1:
		off := rapid.SampledFrom([]int{0, 60, -60, 330, -570, 1439, -1439, 1, -1, 720, -720}).Draw(t, label+"-zb")
		loc = time.FixedZone("", off*60)
	case 2:
		off := rapid.IntRange(-1439, 1439).Draw(t, label+"-z")
		loc = time.FixedZone("", off*60)
	case 3:
		// What time.Now() and time.Unix() give (see init below).
		loc = time.Local
	}

	return time.Date(year, time.Month(month), day, hour, minute, sec, nsec, loc)
}

// Bytes draws a non-nil byte string of 0..32 bytes, now and then up to 200.
func Bytes(t *rapid.T, label string) []byte {
	n := rapid.IntRange(0, 6).Draw(t, label+"-len")
	switch rapid.IntRange(0, 15).Draw(t, label+"-long") {
	case 0, 1:
		n = rapid.IntRange(7, 32).Draw(t, label+"-len2")
	case 2:
		// longer than a small stack buffer (64 bytes, 64 base64 digits)
		n = rapid.SampledFrom([]int{47, 48, 49, 63, 64, 65, 66, 96, 200}).Draw(t, label+"-len3")
	}

	b := make([]byte, n)

	if n > 32 {
		// (a pattern: two draws instead of one per byte)
		start, step := rapid.Byte().Draw(t, label+"-start"), rapid.Byte().Draw(t, label+"-step")
		for i := range b {
			b[i] = start + byte(i)*step
		}

		return b
	}

	for i := range b {
		b[i] = rapid.SampledFrom([]byte{0, 1, 2, 0x7f, 0x80, 0xfe, 0xff, 'a', '"', '='}).Draw(t, label+"-b")
	}

	return b
}

// BaseValue draws a non-nil value of the base kind, with boundary bias.
func BaseValue(t *rapid.T, kind int, label string) any {
	switch kind {
	case jsonapi.AttrTypeString:
		return HostileString(t, label)
	case jsonapi.AttrTypeInt:
		return int(drawInt64(t, label, math.MinInt64, math.MaxInt64))
	case jsonapi.AttrTypeInt8:
		return int8(drawInt64(t, label, math.MinInt8, math.MaxInt8))
	case jsonapi.AttrTypeInt16:
		return int16(drawInt64(t, label, math.MinInt16, math.MaxInt16))
	case jsonapi.AttrTypeInt32:
		return int32(drawInt64(t, label, math.MinInt32, math.MaxInt32))
	case jsonapi.AttrTypeInt64:
		return drawInt64(t, label, math.MinInt64, math.MaxInt64)
	case jsonapi.AttrTypeUint:
		return uint(drawUint64(t, label, math.MaxUint64))
	case jsonapi.AttrTypeUint8:
		return uint8(drawUint64(t, label, math.MaxUint8))
	case jsonapi.AttrTypeUint16:
		return uint16(drawUint64(t, label, math.MaxUint16))
	case jsonapi.AttrTypeUint32:
		return uint32(drawUint64(t, label, math.MaxUint32))
	case jsonapi.AttrTypeUint64:
		return drawUint64(t, label, math.MaxUint64)
	case jsonapi.AttrTypeBool:
		return rapid.Bool().Draw(t, label)
	case jsonapi.AttrTypeTime:
		return Time(t, label)
	case jsonapi.AttrTypeBytes:
		return Bytes(t, label)
	}

	panic(fmt.Sprintf("gen: invalid kind %d", kind))
}

// PtrTo returns a pointer to a fresh copy of the base value v.
func PtrTo(v any) any {
	switch v := v.(type) {
	case string:
		return &v
	case int:
		return &v
	case int8:
		return &v
	case int16:
		return &v
	case int32:
		return &v
	case int64:
		return &v
	case uint:
		return &v
	case uint8:
		return &v
	case uint16:
		return &v
	case uint32:
		return &v
	case uint64:
		return &v
	case bool:
		return &v
	case time.Time:
		return &v
	case []byte:
		return &v
	}

	panic(fmt.Sprintf("gen: PtrTo(%T)", v))
}

// TypedNil returns the typed nil pointer of a nullable kind (the harness' own
// table, independent of GetZeroValue).
func TypedNil(kind int) any {
	switch kind {
	case jsonapi.AttrTypeString:
		return (*string)(nil)
	case jsonapi.AttrTypeInt:
		return (*int)(nil)
	case jsonapi.AttrTypeInt8:
		return (*int8)(nil)
	case jsonapi.AttrTypeInt16:
		return (*int16)(nil)
	case jsonapi.AttrTypeInt32:
		return (*int32)(nil)
	case jsonapi.AttrTypeInt64:
		return (*int64)(nil)
	case jsonapi.AttrTypeUint:
		return (*uint)(nil)
	case jsonapi.AttrTypeUint8:
		return (*uint8)(nil)
	case jsonapi.AttrTypeUint16:
		return (*uint16)(nil)
	case jsonapi.AttrTypeUint32:
		return (*uint32)(nil)
	case jsonapi.AttrTypeUint64:
		return (*uint64)(nil)
	case jsonapi.AttrTypeBool:
		return (*bool)(nil)
	case jsonapi.AttrTypeTime:
		return (*time.Time)(nil)
	case jsonapi.AttrTypeBytes:
		return (*[]byte)(nil)
	}

	panic(fmt.Sprintf("gen: invalid kind %d", kind))
}

// Value draws a well-typed value for the attribute: for nullable kinds a typed
// nil pointer (1 in 4) or a pointer to a fresh value.
func Value(t *rapid.T, attr jsonapi.Attr, label string) any {
	if attr.Nullable {
		if rapid.IntRange(0, 3).Draw(t, label+"-nil") == 0 {
			return TypedNil(attr.Type)
		}

		return PtrTo(BaseValue(t, attr.Type, label))
	}

	return BaseValue(t, attr.Type, label)
}

// Deref splits a value into (isNil, base value). Untyped nil and typed nil
// pointers are both nil.
func Deref(v any) (bool, any) {
	switch v := v.(type) {
	case nil:
		return true, nil
	case *string:
		if v == nil {
			return true, nil
		}

		return false, *v
	case *int:
		if v == nil {
			return true, nil
		}

		return false, *v
	case *int8:
		if v == nil {
			return true, nil
		}

		return false, *v
	case *int16:
		if v == nil {
			return true, nil
		}

		return false, *v
	case *int32:
		if v == nil {
			return true, nil
		}

		return false, *v
	case *int64:
		if v == nil {
			return true, nil
		}

		return false, *v
	case *uint:
		if v == nil {
			return true, nil
		}

		return false, *v
	case *uint8:
		if v == nil {
			return true, nil
		}

		return false, *v
	case *uint16:
		if v == nil {
			return true, nil
		}

		return false, *v
	case *uint32:
		if v == nil {
			return true, nil
		}

		return false, *v
	case *uint64:
		if v == nil {
			return true, nil
		}

		return false, *v
	case *bool:
		if v == nil {
			return true, nil
		}

		return false, *v
	case *time.Time:
		if v == nil {
			return true, nil
		}

		return false, *v
	case *[]byte:
		if v == nil {
			return true, nil
		}

		return false, *v
	}

	return false, v
}

// Show renders a value canonically for case descriptions and messages.
func Show(v any) string {
	isNil, b := Deref(v)
	if isNil {
		return fmt.Sprintf("nil(%T)", v)
	}

	ptr := ""
	if strings.HasPrefix(fmt.Sprintf("%T", v), "*") {
		ptr = "&"
	}

	switch b := b.(type) {
	case string:
		return ptr + strconv.QuoteToASCII(b)
	case time.Time:
		return ptr + b.Format(time.RFC3339Nano)
	case []byte:
		if b == nil {
			return ptr + "bytes(nil)"
		}

		return ptr + "x" + hex.EncodeToString(b)
	case []string:
		qs := make([]string, len(b))
		for i := range b {
			qs[i] = strconv.QuoteToASCII(b[i])
		}

		return "[" + strings.Join(qs, ",") + "]"
	default:
		return fmt.Sprintf("%s%T(%v)", ptr, b, b)
	}
}

// Clone returns a deep copy of a value (fresh pointer, fresh slice).
func Clone(v any) any {
	isNil, b := Deref(v)
	if isNil {
		return v
	}

	var nb any

	switch b := b.(type) {
	case []byte:
		if b == nil {
			nb = []byte(nil)
		} else {
			c := make([]byte, len(b))
			copy(c, b)
			nb = c
		}
	case []string:
		if b == nil {
			return []string(nil)
		}

		c := make([]string, len(b))
		copy(c, b)

		return c
	default:
		nb = b
	}

	if strings.HasPrefix(fmt.Sprintf("%T", v), "*") {
		return PtrTo(nb)
	}

	return nb
}

// ZeroValue is the harness' own table of zero values: nil for nullable kinds.
func ZeroValue(attr jsonapi.Attr) any {
	if attr.Nullable {
		return nil
	}

	switch attr.Type {
	case jsonapi.AttrTypeString:
		return ""
	case jsonapi.AttrTypeInt:
		return int(0)
	case jsonapi.AttrTypeInt8:
		return int8(0)
	case jsonapi.AttrTypeInt16:
		return int16(0)
	case jsonapi.AttrTypeInt32:
		return int32(0)
	case jsonapi.AttrTypeInt64:
		return int64(0)
	case jsonapi.AttrTypeUint:
		return uint(0)
	case jsonapi.AttrTypeUint8:
		return uint8(0)
	case jsonapi.AttrTypeUint16:
		return uint16(0)
	case jsonapi.AttrTypeUint32:
		return uint32(0)
	case jsonapi.AttrTypeUint64:
		return uint64(0)
	case jsonapi.AttrTypeBool:
		return false
	case jsonapi.AttrTypeTime:
		return time.Time{}
	case jsonapi.AttrTypeBytes:
		return []byte{}
	}

	panic(fmt.Sprintf("gen: invalid kind %d", attr.Type))
}

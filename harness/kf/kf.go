// Package kf reads /verif/KNOWN_FINDINGS.txt (read-only at run time).
//
// Lines:
//
//	known: property=<id> sig=<signature> <what fails>
//	fixed: property=<id> <commit> <what failed>
//
// Only "known:" lines suppress anything, and only for the classifier whose
// signature they name.
package kf

import (
	"bufio"
	"fmt"
	"os"
	"strings"
	"sync"
)

// Finding is one "known:" line.
type Finding struct {
	Property string
	Sig      string
	Text     string
}

var (
	once  sync.Once
	known map[string]Finding
)

func load() {
	known = map[string]Finding{}

	path := os.Getenv("VERIF_KF")
	if path == "" {
		path = "/verif/KNOWN_FINDINGS.txt"
	}

	f, err := os.Open(path)
	if err != nil {
		return
	}
	defer f.Close()

	sc := bufio.NewScanner(f)
	for sc.Scan() {
		line := strings.TrimSpace(sc.Text())
		if !strings.HasPrefix(line, "known:") {
			continue
		}

		fields := strings.Fields(strings.TrimPrefix(line, "known:"))
		fd := Finding{}
		rest := []string{}

		for _, w := range fields {
			switch {
			case strings.HasPrefix(w, "property=") && fd.Property == "":
				fd.Property = strings.TrimPrefix(w, "property=")
			case strings.HasPrefix(w, "sig=") && fd.Sig == "":
				fd.Sig = strings.TrimPrefix(w, "sig=")
			default:
				rest = append(rest, w)
			}
		}

		fd.Text = strings.Join(rest, " ")
		if fd.Sig != "" {
			known[fd.Sig] = fd
		}
	}
}

// Known reports whether a finding with this signature is listed as known.
func Known(sig string) bool {
	once.Do(load)
	_, ok := known[sig]

	return ok
}

// Announce prints the KNOWN-FINDING line of a listed finding (called by the
// owning property's witness example while the defect is still present).
func Announce(sig string) {
	once.Do(load)

	if fd, ok := known[sig]; ok {
		fmt.Printf("KNOWN-FINDING: property=%s sig=%s %s\n", fd.Property, fd.Sig, fd.Text)
	}
}

// Package rec is the evidence recorder of the harness: every property calls it
// once per generated case with a canonical description, the labels the case
// falls in and whether the case is non-trivial by the property's stated rule.
// The driver (../../check) merges the per-process files into evidence/<id>.json.
package rec

import (
	"encoding/binary"
	"encoding/json"
	"hash/fnv"
	"os"
	"sort"
	"sync"
)

const maxSamples = 6

type sample struct {
	h    uint64
	desc string
}

// Recorder accumulates what one sub-check (one Test function) explored.
type Recorder struct {
	mu         sync.Mutex
	name       string
	evals      int
	nontrivial map[uint64]struct{}
	labels     map[string]int
	excluded   map[string]int
	samples    []sample // the maxSamples non-trivial cases with the smallest hash
	exhaustive bool
	note       string
}

var (
	regMu sync.Mutex
	reg   = map[string]*Recorder{}
)

// For returns the recorder of the named sub-check.
func For(name string) *Recorder {
	regMu.Lock()
	defer regMu.Unlock()

	if r, ok := reg[name]; ok {
		return r
	}

	r := &Recorder{
		name:       name,
		nontrivial: map[uint64]struct{}{},
		labels:     map[string]int{},
		excluded:   map[string]int{},
	}
	reg[name] = r

	return r
}

func hash(s string) uint64 {
	h := fnv.New64a()
	_, _ = h.Write([]byte(s))

	return h.Sum64()
}

// Case records one generated case that ran to the end of its property.
func (r *Recorder) Case(desc string, nontrivial bool, labels ...string) {
	r.mu.Lock()
	defer r.mu.Unlock()

	r.evals++

	for _, l := range labels {
		if l != "" {
			r.labels[l]++
		}
	}

	if !nontrivial {
		r.labels["trivial"]++
		return
	}

	h := hash(desc)
	if _, ok := r.nontrivial[h]; ok {
		return
	}

	r.nontrivial[h] = struct{}{}

	if len(desc) > 1500 {
		desc = desc[:1500] + "…"
	}

	if len(r.samples) < maxSamples {
		r.samples = append(r.samples, sample{h, desc})
		sort.Slice(r.samples, func(i, j int) bool { return r.samples[i].h < r.samples[j].h })
	} else if h < r.samples[len(r.samples)-1].h {
		r.samples[len(r.samples)-1] = sample{h, desc}
		sort.Slice(r.samples, func(i, j int) bool { return r.samples[i].h < r.samples[j].h })
	}
}

// Label bumps a histogram entry without counting a case.
func (r *Recorder) Label(l string) {
	r.mu.Lock()
	defer r.mu.Unlock()
	r.labels[l]++
}

// Excluded counts a case abandoned because it hit a listed known finding.
func (r *Recorder) Excluded(sig string) {
	r.mu.Lock()
	defer r.mu.Unlock()
	r.excluded[sig]++
}

// Exhaustive marks that this sub-check enumerated its (finite) sub-space completely.
func (r *Recorder) Exhaustive(note string) {
	r.mu.Lock()
	defer r.mu.Unlock()
	r.exhaustive = true
	r.note = note
}

type out struct {
	Name       string         `json:"name"`
	Evals      int            `json:"evaluations"`
	Distinct   int            `json:"distinct_nontrivial"`
	Labels     map[string]int `json:"labels"`
	Excluded   map[string]int `json:"excluded_known"`
	Samples    []string       `json:"samples"`
	Exhaustive bool           `json:"exhaustive"`
	Note       string         `json:"note,omitempty"`
	HashFile   string         `json:"hash_file"`
}

// Flush writes every recorder to $VERIF_REC_OUT (JSON list) and the hashes of
// the distinct non-trivial cases next to it, so that shards can be merged as a
// set union. It does nothing when the variable is unset.
func Flush() {
	path := os.Getenv("VERIF_REC_OUT")
	if path == "" {
		return
	}

	regMu.Lock()
	defer regMu.Unlock()

	names := make([]string, 0, len(reg))
	for n := range reg {
		names = append(names, n)
	}

	sort.Strings(names)

	outs := []out{}

	for i, n := range names {
		r := reg[n]
		r.mu.Lock()

		o := out{
			Name:       r.name,
			Evals:      r.evals,
			Distinct:   len(r.nontrivial),
			Labels:     r.labels,
			Excluded:   r.excluded,
			Exhaustive: r.exhaustive,
			Note:       r.note,
			Samples:    []string{},
		}
		for _, s := range r.samples {
			o.Samples = append(o.Samples, s.desc)
		}

		o.HashFile = path + "." + string(rune('a'+i%26)) + n + ".hashes"
		buf := make([]byte, 0, 8*len(r.nontrivial))

		for h := range r.nontrivial {
			buf = binary.LittleEndian.AppendUint64(buf, h)
		}

		_ = os.WriteFile(o.HashFile, buf, 0o644)

		r.mu.Unlock()

		outs = append(outs, o)
	}

	b, _ := json.MarshalIndent(outs, "", " ")
	_ = os.WriteFile(path, b, 0o644)
}

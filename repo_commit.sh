#!/bin/sh
# Usage: repo_commit.sh <message-file>
# Commits the working-tree changes of /repo only if gofmt, vet and the pinned suite pass.
set -e
cd /repo
test -z "$(gofmt -l .)" || { echo "gofmt needed"; exit 1; }
go vet . 
go test -count=1 ./... > /tmp/repo_test.log 2>&1 || { tail -40 /tmp/repo_test.log; echo "TESTS FAIL - not committed"; exit 1; }
git commit -qa -F "$1"
git log --oneline | head -1

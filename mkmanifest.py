#!/usr/bin/env python3
"""Regenerates MANIFEST.json from checks_config.py and properties.jsonl."""
import json
import os
import sys

ROOT = os.path.dirname(os.path.realpath(__file__))
sys.path.insert(0, ROOT)
from checks_config import PROPS, MANIFEST_TEXT  # noqa: E402

ids = [json.loads(l)["id"] for l in open(os.path.join(ROOT, "properties.jsonl"))]
checks = []
na = []
for pid in ids:
    if pid not in PROPS:
        na.append(dict(property_id=pid, reason="check not built yet (work in progress; the technique applies, see DESIGN.md §6)"))
        continue
    mt = MANIFEST_TEXT[pid]
    checks.append(dict(
        property_id=pid,
        quick_cmd="./check %s quick" % pid,
        thorough_cmd="./check %s thorough" % pid,
        evidence_file="/verif/evidence/%s.json" % pid,
        replay_cmd_template="./check %s --replay {path}" % pid,
        engine=mt.get("engine", "rapid"),
        level_claimed=dict(category="exploration", text=mt["level_text"], design_ref=mt.get("design_ref", "DESIGN.md §6 " + pid)),
        level_note=mt["level_note"],
        technique=mt["technique"],
    ))
m = dict(
    version=1,
    setup_cmd="cd /verif/harness && GOFLAGS=-mod=mod GOPROXY=off GOSUMDB=off GOTOOLCHAIN=local go test -c -tags verif -o /dev/null ./props && GOFLAGS=-mod=mod GOPROXY=off GOSUMDB=off GOTOOLCHAIN=local go test -c -race -tags verif -o /dev/null ./props",
    hooks=dict(
        guard="verif",
        enable="the harness is built with `go test -tags verif`; no hook exists in /repo, every anchor is observable through exported API",
        baseline_off_cmd="cd /repo && go test -vet=off -count=1 ./...",
        source_commits=[],
        add_only=True,
    ),
    engines=[
        dict(name="rapid", path="/verif/harness (pgregory.net/rapid v1.3.0)", serves_properties=sorted(PROPS),
             kind_free_text="property-based testing: structured generators, state machines, shrinking; .fail files are the replay unit"),
        dict(name="go-native-fuzz", path="/verif/harness/props (Fuzz* targets)", serves_properties=[p for p in sorted(PROPS) if PROPS[p].get("fuzz")],
             kind_free_text="coverage-guided fuzzing with the semantic oracle inside the target; thorough tier only"),
        dict(name="go-race-detector", path="go test -race", serves_properties=[p for p in sorted(PROPS) if PROPS[p].get("race")],
             kind_free_text="happens-before race detection as the oracle of generated concurrent histories"),
    ],
    checks=checks,
    notes="Driver: /verif/check (python3, stdlib only). All checks rebuild the harness test binary from /repo's working tree "
          "(go.mod replace => /repo). Exit 0 = held, 1 = VIOLATION line, 2 = inconclusive (build failure, timeout, too few cases). "
          "Known findings: /verif/KNOWN_FINDINGS.txt (read-only at run time).",
    not_applicable=na,
)
json.dump(m, open(os.path.join(ROOT, "MANIFEST.json"), "w"), indent=1)
print("MANIFEST.json: %d checks, %d not claimed" % (len(checks), len(na)))

"""Per-property configuration of the driver: which Test functions make up a
property's check, how many cases each tier asks for, and the evidence texts."""

COMMON_ASSUMPTIONS = [
    "exploration only: generated-input search against an explicit oracle never proves absence of violations",
    "the harness imports the library through its public API from /repo's working tree (go.mod replace); Go toolchain, encoding/json, reflect and rapid v1.3.0 are trusted",
]

PROPS = {
    "C16": dict(
        regress="TestC16Regress",
        subs=[
            dict(test="TestC16Exhaustive", kind="plain"),
            dict(test="TestC16Laws", quick=40000, thorough=800000),
            dict(test="TestC16Schema", quick=12000, thorough=160000),
        ],
        rule="Rel values: exhaustive over names of length <=2 over {a,b} x 4 cardinalities (9 604 values), plus random names "
             "over {a,b,_} of length 0..3 with forced concatenation collisions; oracle = the laws of C16 (Invert involution, "
             "Normalize idempotent / member of {r, inverse} / identity on one-way / same result and same String() for r and "
             "its inverse). Schemas: generated coherent schemas (soft and StructOf-backed types, one-way, two-way, self and "
             "own-inverse relationships), Rels() compared with the groups computed from the generator's description, across "
             "two insertion orders and two calls. Non-trivial = two-way relationship whose type+name concatenations are equal "
             "or prefixes of one another; schema with >=2 two-way pairs, or >=1 pair and a colliding/underscore name. "
             "Distinct = distinct canonical descriptions (FNV-64).",
        assumptions=COMMON_ASSUMPTIONS + [
            "the canonical-representative law is checked for relationships whose four names are non-empty (both ends named, both types named)",
        ],
    ),
    "C01": dict(
        regress="TestC01Regress",
        subs=[dict(test="TestC01RoundTrip", quick=16000, thorough=240000)],
        rule="Generated coherent schema (1-4 types, soft or reflect.StructOf-backed through BuildType, 1 in 6 types carrying all 28 kinds), "
             "one resource with boundary-biased values (width min/max, uint64>2^63, hostile/NUL/astral strings, zoned sub-second times in "
             "years 1..9999, empty and binary byte strings, typed nil and non-nil nullable values, to-many lists incl. repeated IDs), marshaled "
             "via MarshalResource / MarshalDocument single / collection member and unmarshaled against the same schema; oracle = typed value "
             "equality against a snapshot taken before marshaling. Non-trivial = some attribute non-zero AND some special class (width boundary, "
             "uint64>2^63, JSON-escaped or multi-byte string, zoned/sub-second time, non-nil nullable, to-many>=2). Distinct = distinct case descriptions.",
        assumptions=COMMON_ASSUMPTIONS + ["valid UTF-8 only; whole-minute zone offsets; a non-nil pointer to a nil byte slice is not generated (outside C01's domain)"],
    ),
    "C02": dict(
        regress="TestC02Regress",
        subs=[dict(test="TestC02RoundTrip", quick=10000, thorough=160000)],
        rule="Generated documents: primary data nil / resource / Resources (mixed types) / SoftCollection / WrapperCollection / Identifier / "
             "Identifiers, 0-5 included, JSON-model meta, 0-3 error objects with any subset of members, any prefix, arbitrary selections "
             "(absent, empty, subset, unknown names, id, duplicates) and RelData; oracle = member-by-member comparison of the unmarshaled document "
             "with the generator's model (kind, type/ID sequence, selected values, included set, JSON-equal meta, error objects, no data with errors). "
             "Non-trivial = data not nil and (>=2 members or >=1 included or non-empty meta or >=2 errors).",
        assumptions=COMMON_ASSUMPTIONS + ["an Identifier comes back as a field-less resource with the same type and ID ('same kind' = null/single/list)"],
    ),
    "C03": dict(
        regress="TestC03Regress",
        subs=[dict(test="TestC03WellFormed", quick=10000, thorough=160000)],
        rule="Documents as in C02 (without pre-filled included) plus primary *Resources obtained from Range, document links, and a sequence of 0-10 "
             "Include calls whose arguments are primary members, equal-content twins, earlier arguments and fresh resources; oracle = independent "
             "JSON:API structure validator over the output bytes (valid JSON, jsonapi, links.self, data xor errors, included only with data, "
             "type/id strings, self link = prefix+type+/+id, relationship links and linkage shapes) and no (type,id) pair twice across resource "
             "objects of data and included. Non-trivial = an Include argument duplicating a primary/earlier resource, a JSON-escaped ID, or errors "
             "and data both set.",
        assumptions=COMMON_ASSUMPTIONS + ["resource identifier objects in primary data are not counted as resource objects for the no-duplicate rule",
                                          "self links may use the raw or the path-escaped ID"],
    ),
    "C04": dict(
        regress="TestC04Regress",
        subs=[dict(test="TestC04Fieldsets", quick=10000, thorough=160000)],
        rule="Documents as in C02 without errors; for every resource object (primary, member, included; several types per document) the oracle "
             "computes from type, selection list, RelData list and resource values: the exact attribute and relationship key sets, whether each "
             "relationship carries data, and the linkage (IDs as multiset with the target type, null for empty to-one). Non-trivial = a strict "
             "non-empty subset selected for some type present AND >=2 different selections in the output.",
        assumptions=COMMON_ASSUMPTIONS,
    ),
    "C11": dict(
        regress="TestC11Regress",
        subs=[dict(test="TestC11Deterministic", quick=6000, thorough=100000)],
        rule="Documents as in C02 with pairwise distinct included IDs; each is marshaled 6 times (fresh map iteration order each time) and once more "
             "as an equal-content twin with to-many IDs, selection names, RelData names and the included list permuted; oracle = byte identity of all "
             "outputs, equal URL.String, and an observable-state snapshot (all Get values, to-many as multisets, URL selection as sets) equal before "
             "and after. Non-trivial = the permutation changed a list of length>=2 AND some resource exposes >=2 attributes or >=2 relationships.",
        assumptions=COMMON_ASSUMPTIONS + ["map iteration order is sampled by the Go runtime, not enumerated (DESIGN §6 C11 gives the probability bound)"],
    ),
    "C06": dict(
        regress="TestC06Regress",
        subs=[
            dict(test="TestC06Exhaustive", kind="plain"),
            dict(test="TestC06Literal", quick=80000, thorough=1600000),
            dict(test="TestC06Payload", quick=20000, thorough=320000),
        ],
        rule="Meaning-first literals: the generator draws what the JSON text denotes (integer as big.Int relative to the target width's "
             "boundaries +-3, wrap candidates n+k*2^w, magnitudes to 2^70; string; instant; byte string; bool; null; array; object) and renders it "
             "in varied spellings (plain, -0, .0 fraction, exponent forms, non-integral; \\u/short/slash escapes; Z/+00:00/-00:00/offset zones, 0-12 "
             "fractional digits, t/space separators; base64 std/unpadded/URL/newline/dirty trailing bits), crossed with all 28 kinds (40% ill-typed "
             "on purpose) through Attr.UnmarshalToType, and through UnmarshalResource with full payloads (relationship data null / identifier / "
             "list with repeats / links-only / ill-shaped, absent fields). Exhaustive sub-space: every integer literal in [-2^16-300, 2^16+300] on "
             "int8/uint8/int16/uint16 x nullable. Oracle: accepted => exact Go type and exactly the denoted value, null only for nullable, "
             "relationships hold exactly the listed IDs, absent fields zero, re-marshal gives the same JSON meanings. Rejection is always allowed. "
             "Non-trivial = literal within +-3 of a boundary of the target kind, ill-typed for it, or non-canonically spelled.",
        assumptions=COMMON_ASSUMPTIONS + [
            "a panicking call makes the case inapplicable here (panic freedom is C05's subject); such cases are labelled discarded_panic",
            "time literals with >9 fractional digits may be stored truncated or rounded to the nanosecond",
            "non-canonical base64 is compared against a lenient reference decoding",
        ],
    ),
    "C05": dict(
        regress="TestC05Regress",
        subs=[
            dict(test="TestC05Structured", quick=6000, thorough=50000),
            dict(test="TestC05Raw", quick=30000, thorough=300000),
            dict(test="TestC05Payload", quick=16000, thorough=120000),
        ],
        fuzz=[dict(target="FuzzC05", seconds=90)],
        rule="Structured hostile inputs: a valid document from the C02 generator is marshaled with every field selected, parsed into an ordered "
             "JSON tree and mutated 1-3 times (any node replaced by a value of another JSON kind, member deleted, duplicate key, unknown / swapped / "
             "empty type name, unknown field, null array element, nesting to depth 3..10001, truncation); the document text, its data sub-tree, "
             "a member and an included element are each fed to UnmarshalDocument, UnmarshalResource, UnmarshalPartialResource, UnmarshalCollection, "
             "UnmarshalIdentifier, UnmarshalIdentifiers and NewRequest (POST/PATCH/GET). Payload sub-check: resource payloads in which every "
             "attribute of every kind gets a literal of any JSON kind and spelling from the C06 generator (half ill-typed), alone / as document data / "
             "as collection member / as included element. Raw inputs: arbitrary bytes and JSON token soups with schema names. Thorough adds a 90 s coverage-guided native fuzz campaign (fixed 2-type all-kinds schema, golden files and hostile constants as "
             "corpus). Oracle: no panic; error xor result; every returned resource has a schema type, only the schema's fields, every attribute value "
             "of exactly the declared Go type (nil only if nullable), to-one string, to-many []string; identifiers non-empty with a schema type. "
             "Non-trivial (structured) = every case (all are syntactically valid JSON before truncation); (raw) = input is valid JSON.",
        assumptions=COMMON_ASSUMPTIONS + [
            "'no result' on error is read as nil, the zero value or an empty list",
            "native fuzz campaigns are not seed-reproducible; their saved inputs are",
        ],
    ),
    "C13": dict(
        regress="TestC13Regress",
        subs=[dict(test="TestC13Partial", quick=30000, thorough=480000)],
        rule="Resource payloads built from a generated type with any subset of attributes and relationships present (relationship objects with "
             "data null / identifier / list / links only / meta only / ill-shaped, explicit nulls, 10% ill-typed literals, 10% unknown fields); "
             "oracle: differential against UnmarshalResource (accepted iff accepted, same values) plus the payload model (type name, attribute "
             "keys = keys of the attributes object, relationship keys = relationships carrying data, definitions equal to the schema's). "
             "Non-trivial = accepted payload with a strict non-empty subset of the fields present or a relationship object without data.",
        assumptions=COMMON_ASSUMPTIONS + ["a panicking call makes the case inapplicable (C05's subject)"],
    ),
    "C07": dict(
        regress="TestC07Regress",
        subs=[
            dict(test="TestC07Parse", quick=30000, thorough=240000),
            dict(test="TestC07Raw", quick=20000, thorough=200000),
        ],
        fuzz=[dict(target="FuzzC07", seconds=90)],
        rule="Structured requests over generated coherent schemas: a request description (path of one of the shapes /t, /t/id, /t/id/rel, "
             "/t/id/relationships/rel or 0-6 odd segments incl. meta/relationships/unknown names/embedded slashes; 0-6 parameters among fields[T], sort, "
             "include, page[x], filter label/JSON, unknown, empty-valued, repeated, with unknown/duplicate names, '-' rules, nested include paths of "
             "depth<=4 with prefix-named relationships) is rendered with a random valid percent-encoding; NewURLFromRaw, NewSimpleURL+NewURL and NewParams "
             "are all called. Oracle from the description: no panic, URL xor error; fragments; resource type / collection flag / relationship of the "
             "standard shapes; field selection keys in schema, lists duplicate-free subsets of fields+id equal to the valid requested names or all "
             "fields; include paths are requested valid chains, each valid unextended requested path present; sorting rules only id/attributes, contain "
             "id, start with the caller's effective valid rules. Raw sub-check: hostile strings and escape mutations (%, %zz, ;, #, //, ...), also on "
             "incoherent schemas, panic freedom and URL-xor-error only. Thorough adds a 90 s native fuzz campaign over raw strings. "
             "Non-trivial = >=2 parameters and (repeated parameter or rule, unknown name, empty value, include depth>=2, or string-prefix include names).",
        assumptions=COMMON_ASSUMPTIONS + [
            "structural clauses are checked on coherent schemas; incoherent ones only for panic freedom",
            "when a fields[T] parameter is repeated, any single occurrence may be the one honoured",
            "sorting rules are compared after cutting at the first id and dropping later repeats of a field",
        ],
    ),
    "C08": dict(
        regress="TestC08Regress",
        subs=[
            dict(test="TestC08FixedPoint", quick=30000, thorough=480000),
            dict(test="TestC08Metamorphic", quick=20000, thorough=320000),
        ],
        rule="Accepted URLs from the structured generator in 'valid' mode (IDs, page values, filter labels and filter strings drawn from the "
             "reserved-character generator; nested and/or filter trees with large numbers; page[other]; repeated sort/include). Fixed point: String() "
             "passes strict url.Parse and url.ParseQuery, parses against the same schema, recovers fragments, type, ID, relationship, field sets, sorting "
             "rules, page parameters (collections), filter label and JSON-equal filter tree, and String() of the result is the same text. Metamorphic: "
             "the request is re-rendered with differently named parameters permuted, fields/include list items shuffled and empty items inserted (and a "
             "different percent-encoding); both String() results must be identical. Non-trivial = reserved character in an ID/label/page value/filter "
             "string or a filter tree of depth>=2 (fixed point); a permutation that changed the parameter list of a URL with >=2 parameters (metamorphic).",
        assumptions=COMMON_ASSUMPTIONS + [
            "include is not part of the compared members (String never emits it)", "a missing field-selection entry equals an empty one",
            "a parser panic or rejection makes the case inapplicable (C07's subject)",
        ],
    ),
    "C09": dict(
        regress="TestC09Regress",
        subs=[dict(test="TestC09Range", quick=16000, thorough=240000)],
        rule="A generated type with 1-4 attributes over all kinds, a collection of 0-10 resources with unique IDs and values from 3-value domains "
             "(ties are common; nil values for nullable kinds) held as SoftCollection / Resources of soft resources / Resources of wrapped structs / "
             "WrapperCollection; an ID list (empty, or a permuted duplicate-free subset plus an absent ID); nil or a well-typed filter tree built "
             "relative to a member; 0-4 rules over attributes and id with and without '-'; size in {0,1,2,3,n,n+1,2^31,2^63-1,2^63,2^64-1}, "
             "number 0-5 for small sizes. Oracle: reference model select -> filter (C10 evaluator) -> order -> slice. Always: no panic, non-nil "
             "result, input order unchanged, page = single matching resources, non-decreasing under the rules, of the exact length; if the rules "
             "contain id: exact ID sequence, also for a shuffled collection held by another implementation; for sizes 1-4: pages 0..ceil(n/size) "
             "partition the matches, stay ordered across page borders, and the page after the last is empty. Non-trivial = >=3 matches, >=1 rule "
             "other than id, and a tie or nil on the first rule or 0<size<matches.",
        assumptions=COMMON_ASSUMPTIONS + ["ID lists are duplicate-free subsets (the statement quantifies over ID subsets)",
                                          "without id in the rules only sortedness, permutation and partition are required, never a particular order of ties"],
    ),
    "C10": dict(
        regress="TestC10Regress",
        subs=[
            dict(test="TestC10Matrix", kind="plain"),
            dict(test="TestC10Leaf", quick=60000, thorough=1000000),
            dict(test="TestC10Tree", quick=30000, thorough=480000),
        ],
        rule="Leaf sub-check: one attribute of any of the 28 kinds, a resource value and a filter value drawn as a pair class (equal - for times "
             "the same instant in another zone -, adjacent +-1 / one byte changed / prefix, random, nil on either side), all seven operators "
             "(=, !=, <, <=, >, >=, unknown) evaluated on a SoftResource and on a wrapped StructOf struct holding the same value, against an independent "
             "evaluator (big.Int, strings.Compare, bytes.Compare, time.Compare) plus the laws (= xor !=; exactly one of <,=,>; <= and >= as "
             "disjunctions). Tree sub-check: types of 1-5 attributes plus to-one/to-many relationships, trees of and/or to depth 4 with 0-4 children, "
             "leaves incl. in/has and set (in)equality. Matrix: operator x kind x nullable x representative pairs (incl. [2 1] vs [1 2], 2^63 "
             "boundaries, nil on either/both sides) and connectives with empty child lists, enumerated on every run. Non-trivial = adjacent or nil "
             "pair class (leaf); depth>=3 mixing and/or (tree); nil or unequal pair (matrix).",
        assumptions=COMMON_ASSUMPTIONS + ["filters are well typed (value of the field's Go type, typed nil for nullable kinds); ordering operators on to-one relationships are not generated"],
    ),
    "C14": dict(
        regress="TestC14Regress",
        subs=[dict(test="TestC14Edits", quick=12000, thorough=200000)],
        rule="rapid state machine (t.Repeat, ~30 steps on average) over one Schema: AddType (well-formed Type values, names from {a,b,ab,c,''} so "
             "duplicates and empty names are frequent), RemoveType (absent, first, middle, last), AddAttr (valid, duplicate, empty, unknown type, "
             "invalid kinds 0/99/-1 with and without Nullable), RemoveAttr, AddRel (valid, duplicate, empty name, empty target, unknown type), RemoveRel, "
             "AddTwoWayRel (both directions, same type on both ends, missing types, taken and empty names; own-inverse skipped). A reference model is "
             "stepped in parallel; after every step: no panic, the schema equals the model (type order, names, maps), invariants (unique non-empty names, "
             "map keys = names, valid kinds, non-empty targets), HasType/GetType agree with the list for every pool name, an edit that returned an error "
             "left a deep snapshot unchanged, removing something absent changed nothing, an edit the model accepts succeeded and one it rejects failed. "
             "Non-trivial = history with a removal of a non-last type, a failed edit, or a two-way add given in non-normalised direction.",
        assumptions=COMMON_ASSUMPTIONS + ["attribute and relationship name pools are disjoint (cross-kind name clashes are not decided by the statement)",
                                          "an edit whose preconditions fail (missing type, taken or empty name, invalid kind) is expected to return an error"],
    ),
    "C15": dict(
        regress="TestC15Regress",
        subs=[dict(test="TestC15Check", quick=40000, thorough=600000)],
        rule="Schemas of 1-5 soft types built directly from Type literals with 0-8 relationships: existing or missing targets, one-way and two-way, "
             "inverses present / missing / misnamed / on another type / with wrong FromType, self references and own-inverse relationships; half of the "
             "schemas get no planted fault. Oracle: independent per-relationship predicate (dangling target; inverse named and FromType != owner or no "
             "relationship of the target naming it back); Check() is empty iff nothing offends, has at least one error per offending relationship, does "
             "not panic and leaves a deep snapshot of the schema unchanged. Non-trivial = >=2 types and >=1 two-way relationship.",
        assumptions=COMMON_ASSUMPTIONS + ["'names it back' is the name pair test (FromName/ToName), as in the code; an inverse that names back but targets a third type is not required to be reported"],
    ),
    "C17": dict(
        regress="TestC17Regress",
        subs=[
            dict(test="TestC17ReadBack", quick=4000, thorough=60000),
            dict(test="TestC17Equality", quick=20000, thorough=320000),
        ],
        rule="ReadBack: rapid state machine driving, in lock-step, a SoftResource and a wrapped reflect.StructOf struct of the same generated type "
             "(1-6 attributes over the 28 kinds, 1 in 6 with all 28; to-one and to-many relationships) and a map model: Set with a value of the declared "
             "Go type (typed nil and pointers for nullable kinds), Set(nullable, untyped nil), Set(id), Set on relationships, New(); after every step both "
             "implementations must expose the type's name and exactly its fields with the schema's definitions, and every Get must equal the last value "
             "set or the kind's zero (nil for nullable, empty string / empty list for relationships). Equality: pairs (soft or wrapped on either side) "
             "that are identical or differ in exactly one of type name, one attribute name, one relationship name, one attribute value, one relationship "
             "value, ID; Equal and EqualStrict must be reflexive, symmetric and never hold across a difference. Non-trivial = history with >=3 Sets over "
             ">=2 kinds incl. a nil<->value transition; pair differing in exactly one aspect.",
        assumptions=COMMON_ASSUMPTIONS + ["typed and untyped nil are the same value; a nil and an empty byte string are the same value",
                                          "relationships are generated without FromOne (a struct tag cannot express it)"],
    ),
    "C18": dict(
        regress="TestC18Regress",
        subs=[
            dict(test="TestC18Copy", quick=8000, thorough=120000),
            dict(test="TestC18Type", quick=16000, thorough=240000),
        ],
        rule="A resource (soft or wrapped StructOf struct) of a generated type that always has a byte string, a nullable byte string, a nullable string, "
             "two to-many and one to-one relationship next to random attributes, filled with values (3 in 4 cases force non-empty bytes and a 3-ID list); "
             "Copy() (5 in 6) or New(); the copy must read back the source's type name, fields, ID and values (New: zeros) and the source must be "
             "unchanged; then 1-12 mutations on a randomly chosen side: Set attribute/relationship/ID, MarshalResource with relationship data (sorts IDs "
             "in place), Filter '=' on a to-many (sorts in place), writing an element of the []byte / []string / *[]byte returned by Get, and for soft "
             "resources AddAttr / AddRel / RemoveField; a deep, order-sensitive snapshot of the other side taken before each mutation must be unchanged. "
             "Type sub-check: Type.Copy of a generated type is snapshot-equal and independent under AddAttr/AddRel/Remove*/direct map writes/rename on "
             "either side. Non-trivial = source holds non-empty bytes or >=2 IDs and >=1 in-place mutation was applied to a Copy.",
        assumptions=COMMON_ASSUMPTIONS + ["writing through a scalar pointer obtained from Get is not among the listed operations and is not generated"],
    ),
    "C19": dict(
        regress="TestC19Regress",
        subs=[dict(test="TestC19Store", quick=4000, thorough=45000)],
        rule="rapid state machine on a SoftCollection whose type was set (attributes from {p,q,s} over 7 kinds, relationships from {m,o}): Add of a "
             "resource of exactly the collection's type or of a freshly drawn narrower / wider / conflicting type, soft or wrapped, with IDs from a "
             "4-element pool (duplicates frequent); Remove (present anywhere or missing); AddAttr / AddRel (new and duplicate names); SetType to a copy of "
             "the current type with fields dropped and/or one added; Set on a previously added source resource. A list model is stepped in parallel; after "
             "every step: Len, At in range, At(-1/-5/len/len+3) nil, Resource(id) for every pool ID, collection type fields, and for every stored "
             "resource exactly the collection's current fields with the collection's definitions and the modelled values (snapshot at Add if the "
             "definition matched, zero otherwise and for fields added later). Non-trivial = >=2 Add, >=1 Remove that hits and >=1 type change after "
             "the first Add.",
        assumptions=COMMON_ASSUMPTIONS + ["attribute and relationship name pools are disjoint (cross-kind collisions are not compared)",
                                          "a field dropped by SetType loses its stored values"],
    ),
    "C20": dict(
        regress="TestC20Regress",
        subs=[dict(test="TestC20Shapes", quick=50000, thorough=800000)],
        rule="Struct shapes built at run time with reflect.StructOf: an ID field in one of 10 forms (fine, absent, json tag other/absent, api tag "
             "empty/absent, int, []byte, *string, named Id) and 0-8 further exported fields in random order, each a proper attribute (28 kinds), a "
             "proper relationship (rel,t / rel,t,inv / rel,t,), or anything: one of 37 Go types (supported and float64, []int, map, struct, **string, "
             "*[]string, Duration, []*string) with api tag among attr, rel, 'rel,', rel,t, rel,t,inv, rel,a,b,c, foo, '', 'attr,x', 'relation,t' or none, "
             "json tag missing, unique, or drawn from a small pool with '' and id (duplicates frequent); plus hand-declared structs with a named field "
             "type, an unexported tagged field and an embedded struct. Oracle: Check never panics; if it accepts (value) then for the struct by value "
             "and by pointer Wrap, BuildType, Type.New, Wrapper.New/Copy, Set/Get of id and of every declared field with a generated value of the Go "
             "field type and MarshalResource all succeed without panic, and BuildType / Wrapper.GetType / Attrs / Rels equal an independent derivation "
             "from the tags and Go types; if it rejects, BuildType errors and Wrap panics. Non-trivial = shape with an ID field, >=2 tagged fields and an "
             "unusual form (missing / empty / id / duplicate json tag, rel arity outside 2..3, unusual ID).",
        assumptions=COMMON_ASSUMPTIONS + ["type names equal to 'attr' or starting with 'rel' are not generated for the ID's api tag",
                                          "shapes are limited to what reflect.StructOf can express plus three hand-declared structs"],
    ),
    "C12": dict(
        regress="TestC12Regress",
        race=True,
        subs=[
            dict(test="TestC12Sequential", quick=1500, thorough=20000),
            dict(test="TestC12Concurrent", quick=300, thorough=5000),
        ],
        rule="A generated coherent schema with 2-3 soft and StructOf-backed types shared by all operations; operations with their own pre-generated "
             "inputs: parse a URL (valid or hostile), UnmarshalDocument, UnmarshalPartialResource, GetType(name).New() + Set/Get, marshal an own "
             "document, HasType, GetType, Check, Rels. Sequential sub-check (shrinkable): every operation alone leaves a deep snapshot of the schema's "
             "exported state unchanged and gives the same result twice. Concurrent sub-check: 2-16 goroutines, each with its own list of 5-25 "
             "operations, released by a barrier in a binary built with the Go race detector (halt_on_error); a race report, a concurrent-map fatal "
             "error, a panic, a result that differs from a sequential run of the same list, or a changed schema is a violation; the case is written to "
             "c12.case.txt before it starts so that a report can be paired with its history. Non-trivial = >=3 distinct operation kinds of which >=1 is "
             "a schema query (concurrent: on >=2 goroutines).",
        assumptions=COMMON_ASSUMPTIONS + [
            "the harness does not own the goroutine schedule: the race detector flags conflicting unsynchronised accesses that both occur in a run, largely independently of timing, but it is not exhaustive over interleavings",
            "a race report cannot be shrunk (the process halts); the replay unit is the seed and the logged case",
        ],
    ),
}

# Additions made while the checks were widened against seeded changes (rounds
# 3-7, DESIGN 12.4); appended to the rule texts above.
SCHEMA_HISTORY = (" Generated schemas: names over a tiny alphabet (ASCII letters/digits incl. 0/-/_/blank plus a letter and a symbol above U+007F) with forced "
                  "prefixes, extensions, case variants and concatenation twins (a.x_n / a_x.n); one soft type in four is derived from another used type "
                  "(New, Copy, rename, add a field); one schema in four is built through a longer edit history (a throw-away type added and removed), "
                  "one in six has its types taken out and put back in order, the schema being really used (lookups, Check, Rels, URL parsing, "
                  "full and partial unmarshaling) while the order is not the final one; struct-backed types declare their ID field anywhere, take it from an embedded struct, or give it a defined string type, may embed a struct with tagged fields (to be ignored) and carry an untagged field with an attribute's json name; now and then one type has 60-80 fields (possibly with long names), rarely 33-40 relationships; one schema in eight has a field called ID, Id, iD or Type; times may be located in time.Local (pinned to +02:00) and include the ends of the year range written in a zone that moves their UTC year out of it; to-many values may hold an empty ID; IDs may be made of a, b, comma and blank, read like numbers (007, +5, 1e3) or like percent-encodings (100%25); byte strings of 47-200 bytes now and then; incoherent schemas may have 15-26 types and dangling targets that nearly match a type name.")
EXTRA_RULE = {
    "C01": SCHEMA_HISTORY + " One soft resource in five has a field (attribute or relationship) that replaced a placeholder in its type after the "
           "values were set (reads as zero). Times include landmark instants (zero time in UTC and +05:30, Unix epoch, year 9999). One case in five marshals the resource as a collection member, marshals other collections, then reads the first payload (the member in front may carry the same ID; one case in ten puts 29-129 fillers in front); every pointer and slice of what came back is overwritten afterwards.",
    "C02": SCHEMA_HISTORY + " Members may be soft resources on a trimmed type of the same name, or soft resources / soft collections whose type was edited "
           "after the values were set; one list in 25 has 30-70 members; meta strings that look like timestamps, numbers, booleans, base64; URL with any "
           "subset of size/number/custom page parameters and a filter label or and/or tree; error statuses include real HTTP codes; one member in ten has no ID yet; documents without data get a collection URL half the time; one document in 25 includes 30-70 resources (long lists have explicit sizes around powers of two, up to 130); one to-many value in forty has 31-65 IDs; a single resource may come with a URL of another type; float64 page values; meta numbers beyond the 64-bit integers; Document.Resources nil, empty or with an unrelated entry; one case in three marshals two meta-only documents before the payload is read, and the reader's buffer is overwritten after UnmarshalDocument.",
    "C03": SCHEMA_HISTORY + " 0-10 Include calls (one case in six: 11-48), a marshal may come between Include calls, Document.Resources nil / empty / "
           "unrelated, prefixes containing %, lists of 30-70 members now and then; one case in three marshals three meta-only documents before the output is examined (it must not have changed); primary data one time in five as a cursor-style Collection of the harness' own; a resource without ID links to the prefix or prefix+type+/ exactly; every document is marshaled and validated twice; Include candidates may have no ID.",
    "C04": SCHEMA_HISTORY + " Documents as in C02 (trimmed soft members of the same type name, large lists, URL filters and page parameters); each document is marshaled three times with the same URL, the last time with a widened selection.",
    "C05": SCHEMA_HISTORY + " Mutated documents include lists of 30-70 members; mutations include editing a string in place (character dropped, "
           "prefix, suffix, doubled, emptied) and a links member in object form (href, meta of any JSON kind), type names in another letter case, list elements given twice; returned types are looked up by exact name in Schema.Types by the harness itself; request targets are path-escaped.",
    "C06": SCHEMA_HISTORY + " One payload case in four is preceded by another request for the same type (accepted, or refused because its id is a number); "
           "one in four runs as the second member of a collection (UnmarshalCollection) whose first member is of any type; a bytes attribute must "
           "re-marshal as a JSON string; every accepted value and resource is overwritten in place afterwards (pointers, slices); time literals of year 0000; one collection-member case in ten has 31-40 members in front of the payload, the nearest one a full resource of the same type half the time; payloads with an unknown or missing type, ill meta/links members, empty or missing IDs in to-many lists.",
    "C07": SCHEMA_HISTORY + " Sort rules with several leading dashes and other decorations (up to 12 rules), fields lists naming fields of other types, "
           "filter labels in any JSON escape style; two names differing by one leading character are sorted on longer first; a name from the far end of the sorted field list given twice; page values spelled as floats, hex, with underscores or non-ASCII digits; relationship.attribute sort rules; one accepted URL in three is examined again after two more URLs were parsed.",
    "C08": SCHEMA_HISTORY + " Empty filter= / sort= / include= / fields[t]= among the accepted parameters; filter labels in any JSON escape style incl. "
           "whitespace + '{'; collations on combining filter nodes, whose members come in any order; filter trees compared member by member. The recorded finding fields-param-truncated is "
           "excused only when the text is read exactly like the same text without the truncated parameter. One case in twenty first prints a URL on which the pinned String panics (recovered).",
    "C09": " Attribute names with dashes, underscores, non-ASCII letters and 'id' inside; one ID list, filter and rules slice per case handed to every "
           "Range call; every page returned during a case is read again at the end, after two unrelated Range calls on the same collection; collections of up to 70 members, an empty ID, instants far apart, byte strings of different lengths; every other soft collection has a past (members added in between and removed again); upper-case twins of attribute names; at the end of a case the same filter and rules are used once more without the ID list; a renamed-attribute past for soft collections; rarely 129-230 members (always filtered, pages of 50); collations on filter nodes; in lists of 8-20 values, overwritten in place before the filter is used once more; attributes called ID/Id/iD; IDs over a, b, c, 0, 1, 2; two members exchange a sorted value between two identical requests.",
    "C10": " One built filter is evaluated, some of its leaf values are replaced (in place for lists of equal length) and it is evaluated again; leaf "
           "filters whose value is the one read from the resource itself (same pointer / slice); filters that use one sub-filter object at several "
           "places; unknown operators that look like known ones (==, !==, <==, =<, <>, '', IN, Has); ordering operators on to-one relationships (lexicographic), zero-prefixed and neighbouring IDs; to-many sets that read alike when joined with commas; lists of filters under unknown operators; collations on nodes; in lists of 8-20 values; every other wrapped twin wraps the filled struct by value; attributes called ID/Id/iD; wide (60-140 groups) and deep (60-140 levels) trees around a generated one; a soft resource nobody has read yet.",
    "C11": SCHEMA_HISTORY + " Documents as in C02; included IDs chosen so that type+ID (either order) coincide with an earlier included resource when the "
           "type names allow it; after the repeated marshals the lists of the same document and URL objects are permuted in place and marshaled again; "
           "the observable state includes page parameters, filter label and filter tree as they read, the relationship-data lists of document and URL and the included list as multisets; a primary resource may also be listed among the included; lists may come with a URL that is not a collection URL; resources now and then carry meta (null members included) which is part of the observable state; the included list may first have been built through Include; page values are shown with their Go type; one document in four may include different types under one ID (up to 12 included, equal-ID members keep the caller's order in the twin).",
    "C12": SCHEMA_HISTORY + " Further operation: New() on schema.Types[i] itself. At most one relationship with an empty FromType. Unmarshal results are "
           "kept and re-read when a goroutine's list is done; a result's resource-level meta must be empty or the request's own. Operations marshal-softcol, roundtrip-document, new-request and unmarshal-collection (data or included lists, now and then 33+ members); bursts of 61 parses of one URL and of 21 unmarshals of one list body; IDs of 128-320 bytes; a goroutine now and then repeats the request text of another one; large schemas of 8-22 types with dangling relationships; a run that does not finish in 60 s is a violation (deadlock) with its history printed.",
    "C13": SCHEMA_HISTORY + " Trailing text after the resource object; to-many lists of the partial and the full result compared in order; unknown "
           "relationships without data; names placed under the wrong member (a relationship among the attributes, an attribute among the relationships); unknown or missing type with or without fields; linkage identifiers with a missing, numeric or foreign type; relationship objects whose links/meta are empty, null or absent; one-way relationships without FromType; half of the struct-backed types keep their relationships exactly as BuildType returns them.",
    "C14": " Names include a_b / a-b types, non-ASCII names, two-way relationships whose ends concatenate to the same string, invalid kinds next to the "
           "valid range and extreme integers; a failed edit is also compared with a snapshot that tells nil maps from empty ones; lookups are made after "
           "two edits in three only; type names differing by case only.",
    "C15": " Types may leave their maps nil. One schema in some also has a past (a reciprocated pair removed, restored with AddTwoWayRel, one end removed again). One schema in eight is dense (few types, a pool of 14 relationship names, up to 50 edges, repeated inverse names). One schema in four is built through a throw-away type, one in six has its types taken out and put back after a few lookups.",
    "C16": " The inverse is also computed independently (both halves swapped); relationships with the same type and name on both ends are included. "
           "Schemas are built a third way: types first, then one relationship or pair at a time through AddRel / AddTwoWayRel in any order, with or "
           "without a Rels() query between edits. Concatenation twins in generated schemas; one schema in five is dense (3-6 types, up to 45 edges: lists of more than a dozen entries).",
    "C17": " Actions also include Equal/EqualStrict calls between Set and Get, Set(bytes, []byte(nil)), attributes whose names differ only by letter "
           "case; equality pairs include to-many lists that print alike, null against a pointer to the zero value, one empty ID, the same attribute name with another kind and a look-alike value, the inverse end of a same-type pair, an attribute for a relationship, the same relationship with the other cardinality, a never-touched resource against one holding a value; type names beginning like tag keywords (relatives, rel-x, attrs); relationship-only types; struct types with a defined string type as ID, embedded structs with tagged fields, shadow fields, now and then 62-72 attributes (then compared in full after one step in eight and at the end).",
    "C18": " Slices with spare capacity at copy time and append-through-Get operations on both sides; Type.Copy of soft and struct-backed types, "
           "possibly used (New) before the copy, with New on either side afterwards; Fields() and the content of the type compared; types as in C17, soft sources with blank FromType; a field-less soft resource with an ID is copied too; RemoveField leaves the other fields of the mutated side as they were; every history ends with one more New or Copy from the source, which must be of the source's type as it is then.",
    "C19": " The collection type may leave an unused field map unallocated; Resource(id) is compared with At(first position of that ID); names P and M next to p and m; members may be added to their own collection. Kinds include nullable bytes/time/bool; IDs include the empty ID; SetType may retarget a kept relationship; members are read after two "
           "operations in three only (what a stored resource exposes must not depend on reads in between); one history in four adds 10-45 members at once and may remove many; several members may share one *Type.",
    "C20": " Tags rel,,inv and rel,,; json names differing only by case; after everything else the built type is edited and BuildType is called again; interface-typed fields, embedded structs with tagged fields, now and then 65-68 fields.",
}

# (rounds 20 and later of seeded changes)
EXTRA_RULE_LATE = {
    "C03": " The second marshal of a document happens under another PrePath half the time and is validated against that one. The caller's links may hold a self entry; one URL in four carries include paths.",
    "C07": " Members of and/or lists in filter parameters are null now and then; fields lists with as many names as the type has fields.",
    "C08": " Fields lists with as many names as the type has fields, one of them id (with or without one more name that is not a field).",
    "C09": " The empty byte string comes allocated and as a nil slice.",
    "C11": " One document in four carries top-level links of its own (paths, absolute, empty, with meta). Prefixes ending in two slashes; the to-many lists handed out by Get are permuted in place before the last marshal.",
    "C12": " One marshal-softcol operation in six has 17 to 129 members. Two identifiers in ten of the unmarshal operations bear the name of some type of the schema.",
    "C13": " A relationship member may be null; one payload in eight is preceded by white space or by text that is not white space.",
    "C17": " Equality pairs include a to-many list and its prefix in the same array, handed over as they are. Action TypeNew: GetType().New() of either resource is a fresh resource of the type.",
    "C19": " At is also read far outside the range (1<<32, 1<<32+1, -(1<<32), 1<<62+1, the ends of int). One collection in four takes its type from a wrapped struct as it comes; structs of that Go type are added later. Relationships added to the collection may name an inverse.",
    "C01": " In member mode the member in front carries, for a same-named attribute of another kind, the value written with the same JSON literal.",
    "C06": " Two payloads in three for a type of more than 12 fields carry plain, certainly acceptable literals for all but two attributes.",
    "C15": " One case in three rebuilds the schema type by type (lookups and Check on the way) and adds the relationships afterwards; attributes may bear relationship names.",
    "C18": " One source in four was copied once before, with nil byte strings and lists; one wrapped source in four wraps a struct filled through another wrapper of the same pointer.",
    "C05": " Requests announce an encoding of their body (gzip, identity, deflate, br or none, chosen by the body's length) and a content type now and then.",
    "C14": " After a pair was added, one AddTwoWayRel in four tries the pair that reads the same once its names are joined with underscores.",
    "C16": " In the edit-by-edit build one relationship in four is first declared with other cardinalities, listed, removed and declared anew.",
    "C20": " The built type must be Type.Equal to the wrapper's type and to the type of Type.New(); a copy must be EqualStrict to its source, also with empty non-nil byte strings and lists.",
}

for _pid, _extra in EXTRA_RULE_LATE.items():
    EXTRA_RULE[_pid] += _extra

for _pid, _extra in EXTRA_RULE.items():
    PROPS[_pid]["rule"] += _extra

LEVEL_NOTE = ("Trusted base: Go toolchain and runtime, encoding/json, reflect, rapid v1.3.0, the harness' own generators and "
              "reference oracle. Assumes the generated domain described in the evidence 'rule' is representative; absence of a "
              "violation is not a proof.")

MANIFEST_TEXT = {
    "C12": dict(
        technique="property-based generation of concurrent histories (rapid) with the Go race detector and a sequential reference run as oracles; shrinkable sequential non-mutation check",
        engine="rapid + go-race-detector",
        level_text="Exploration: generated operation lists run on real goroutines under the race detector; shared writes are also caught deterministically by the sequential snapshot check.",
        level_note=LEVEL_NOTE,
    ),
    "C20": dict(
        technique="property-based testing (rapid) over run-time struct shapes (reflect.StructOf) with an independent tag-derivation oracle",
        level_text="Exploration: the quantifier is over programs; the generator covers the tag and type forms listed in the property with reflect.StructOf and exercises every accepted shape through all listed operations, by value and by pointer.",
        level_note=LEVEL_NOTE,
    ),
    "C17": dict(
        technique="stateful property-based testing (rapid state machine, two implementations in lock-step against a map model) + generated pairs for the equality laws",
        level_text="Exploration: histories of well-typed Set calls are replayed on both implementations and compared with a model after every step; equality laws are checked on pairs differing in exactly one aspect.",
        level_note=LEVEL_NOTE,
    ),
    "C18": dict(
        technique="property-based testing (rapid): copy-then-mutate histories with deep before/after snapshots of the untouched side",
        level_text="Exploration: every listed mutation kind, including the in-place ones (marshal, filter, slice writes), is applied to either side after Copy/New and the other side is snapshot-compared.",
        level_note=LEVEL_NOTE,
    ),
    "C19": dict(
        technique="stateful property-based testing (rapid state machine) against an ordered-list reference model",
        level_text="Exploration: histories of Add/Remove/AddAttr/AddRel/SetType/Set-on-source are shrunk as one value; reads are compared with the model after two steps in three (Len after every step).",
        level_note=LEVEL_NOTE,
    ),
    "C14": dict(
        technique="stateful property-based testing (rapid state machine) against a reference model with all-or-nothing snapshots",
        level_text="Exploration: edit histories are generated and shrunk as one value; the model decides for every edit whether it must succeed, and the schema is compared with it after every step.",
        level_note=LEVEL_NOTE,
    ),
    "C15": dict(
        technique="property-based testing (rapid): generated schemas with planted faults against an independent per-relationship predicate",
        level_text="Exploration: both directions of the iff are exercised (about half of the generated schemas are coherent), plus the lower bound on the number of errors and non-mutation.",
        level_note=LEVEL_NOTE,
    ),
    "C09": dict(
        technique="property-based testing (rapid): reference model (select/filter/order/slice) + validity predicate and partition relation for non-total orders",
        level_text="Exploration: every case runs Range several times (page, shuffled twin on another implementation, all consecutive pages) against a model built on the C10 reference evaluator.",
        level_note=LEVEL_NOTE,
    ),
    "C10": dict(
        technique="property-based testing (rapid): differential against an independent evaluator, algebraic laws, enumerated operator x kind x class matrix",
        level_text="Exploration: leaf pairs are drawn by class so that each comparison class is hit on purpose; the operator/kind/class matrix is enumerated on every run; both resource implementations must agree with the reference.",
        level_note=LEVEL_NOTE,
    ),
    "C07": dict(
        technique="property-based testing (rapid) from structured request descriptions + raw/mutated strings + native coverage-guided fuzzing (thorough)",
        engine="rapid + go-native-fuzz",
        level_text="Exploration: the oracle is computed from the request description, not from re-parsing; three entry points are exercised on every case.",
        level_note=LEVEL_NOTE,
    ),
    "C08": dict(
        technique="property-based testing (rapid): fixed-point (round-trip) oracle + metamorphic re-rendering",
        level_text="Exploration: every accepted generated URL goes through String -> strict parse -> re-parse -> String, and through a permuted re-rendering.",
        level_note=LEVEL_NOTE,
    ),
    "C05": dict(
        technique="property-based testing (rapid) with JSON-level mutation of valid documents + raw byte/token inputs + native coverage-guided fuzzing (thorough), validity-predicate oracle",
        engine="rapid + go-native-fuzz",
        level_text="Exploration: structured mutation reaches the logic behind the skeleton decoding; the fuzz tier searches for magic byte sequences; every entry point is run on every input with a conformance oracle on results.",
        level_note=LEVEL_NOTE,
    ),
    "C13": dict(
        technique="property-based testing (rapid): differential (partial vs full unmarshaling) + payload-model oracle",
        level_text="Exploration: every generated payload goes through both functions; acceptance must agree and the partial type must be exactly what the payload text carries.",
        level_note=LEVEL_NOTE,
    ),
    "C06": dict(
        technique="property-based testing (rapid) with meaning-first literal generation + exhaustive enumeration of 8/16-bit integer literals",
        level_text="Exploration: literals whose meaning is known by construction are crossed with all 28 kinds; all 8- and 16-bit integer literals (+-300 beyond 2^16) are enumerated exhaustively on every run.",
        level_note=LEVEL_NOTE,
    ),
    "C01": dict(
        technique="property-based testing (rapid): round-trip oracle over generated schemas, types and boundary-biased values",
        level_text="Exploration: tens of thousands of generated resources over all 28 kinds in both implementations, compared field by field with a pre-marshal snapshot.",
        level_note=LEVEL_NOTE,
    ),
    "C02": dict(
        technique="property-based testing (rapid): document round-trip oracle against the generator's model",
        level_text="Exploration: generated documents of every primary-data kind with included, meta and errors; the unmarshaled document is compared member by member with the model.",
        level_note=LEVEL_NOTE,
    ),
    "C03": dict(
        technique="property-based testing (rapid): independent JSON:API structure validator + Include call sequences",
        level_text="Exploration: every marshaled output of generated documents and Include histories is validated structurally and for duplicate type/ID pairs.",
        level_note=LEVEL_NOTE,
    ),
    "C04": dict(
        technique="property-based testing (rapid): model-computed field sets and linkage per resource object",
        level_text="Exploration: the expected attribute/relationship key sets and relationship data are computed from the inputs alone and compared with every resource object of the output.",
        level_note=LEVEL_NOTE,
    ),
    "C11": dict(
        technique="property-based testing (rapid): repeat + metamorphic permutation + non-mutation snapshot",
        level_text="Exploration: byte identity under repetition (map order re-randomised by the runtime) and under permutation of order-irrelevant inputs, plus a before/after snapshot.",
        level_note=LEVEL_NOTE,
    ),
    "C16": dict(
        technique="property-based testing (rapid) of algebraic laws + exhaustive enumeration of a finite sub-space + model-based check of Schema.Rels",
        level_text="Exploration: the value-level laws are enumerated exhaustively over a 9 604-value sub-space and sampled beyond it; "
                   "Schema.Rels is compared with an independently computed grouping on thousands of generated coherent schemas. "
                   "This is the right level because the property is a universally quantified algebraic law over a small value type.",
        level_note=LEVEL_NOTE,
    ),
}

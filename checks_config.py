"""Per-property configuration of the driver: which Test functions make up a
property's check, how many cases each tier asks for, and the evidence texts."""

COMMON_ASSUMPTIONS = [
    "exploration only: generated-input search against an explicit oracle never proves absence of violations",
    "the harness imports the library through its public API from /repo's working tree (go.mod replace); Go toolchain, encoding/json, reflect and rapid v1.3.0 are trusted",
]

PROPS = {
    "C16": dict(
        regress="TestC16Regress",
        subs=[
            dict(test="TestC16Exhaustive", kind="plain"),
            dict(test="TestC16Laws", quick=20000, thorough=200000),
            dict(test="TestC16Schema", quick=6000, thorough=40000),
        ],
        rule="Rel values: exhaustive over names of length <=2 over {a,b} x 4 cardinalities (9 604 values), plus random names "
             "over {a,b,_} of length 0..3 with forced concatenation collisions; oracle = the laws of C16 (Invert involution, "
             "Normalize idempotent / member of {r, inverse} / identity on one-way / same result and same String() for r and "
             "its inverse). Schemas: generated coherent schemas (soft and StructOf-backed types, one-way, two-way, self and "
             "own-inverse relationships), Rels() compared with the groups computed from the generator's description, across "
             "two insertion orders and two calls. Non-trivial = two-way relationship whose type+name concatenations are equal "
             "or prefixes of one another; schema with >=2 two-way pairs, or >=1 pair and a colliding/underscore name. "
             "Distinct = distinct canonical descriptions (FNV-64).",
        assumptions=COMMON_ASSUMPTIONS + [
            "the canonical-representative law is checked for relationships whose four names are non-empty and that are not their own inverse",
        ],
    ),
}

LEVEL_NOTE = ("Trusted base: Go toolchain and runtime, encoding/json, reflect, rapid v1.3.0, the harness' own generators and "
              "reference oracle. Assumes the generated domain described in the evidence 'rule' is representative; absence of a "
              "violation is not a proof.")

MANIFEST_TEXT = {
    "C16": dict(
        technique="property-based testing (rapid) of algebraic laws + exhaustive enumeration of a finite sub-space + model-based check of Schema.Rels",
        level_text="Exploration: the value-level laws are enumerated exhaustively over a 9 604-value sub-space and sampled beyond it; "
                   "Schema.Rels is compared with an independently computed grouping on thousands of generated coherent schemas. "
                   "This is the right level because the property is a universally quantified algebraic law over a small value type.",
        level_note=LEVEL_NOTE,
    ),
}
